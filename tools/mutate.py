#!/usr/bin/env python3
"""Systematic small mutants of chosen functions of a repo file, each run against one property's check on a scratch copy.
usage: tools/mutate.py <Cxx> <repo-relative-file> <func1,func2,...> [--max N] [--only po-substr ...] [--jobs J]
Mutation operators (one site per mutant): comparison flips (< <-> <=, > <-> >=, == <-> !=), + <-> -, * <-> /, `not` insertion on a
name test of is_token0_quote-like booleans, token0 <-> token1 / base <-> quote / amount0 <-> amount1 / lower <-> upper in ONE statement,
integer constant +1.  Survivors are printed for manual triage (equivalent mutant, outside the property, or a gap in the check)."""
import ast, sys, os, subprocess, tempfile, shutil, copy, json, re

SWAPS = [("token0", "token1"), ("base", "quote"), ("amount0", "amount1"), ("lower", "upper"), ("decimal0", "decimal1"), ("supply", "borrow"), ("asks", "bids"), ("long", "short")]


def sites(fn):
    out = []
    for node in ast.walk(fn):
        if isinstance(node, ast.Compare) and len(node.ops) == 1:
            flip = {ast.Lt: ast.LtE, ast.LtE: ast.Lt, ast.Gt: ast.GtE, ast.GtE: ast.Gt, ast.Eq: ast.NotEq, ast.NotEq: ast.Eq}.get(type(node.ops[0]))
            if flip:
                out.append(("cmp", node, flip))
        elif isinstance(node, ast.BinOp):
            flip = {ast.Add: ast.Sub, ast.Sub: ast.Add, ast.Mult: ast.Div, ast.Div: ast.Mult}.get(type(node.op))
            if flip:
                out.append(("bin", node, flip))
        elif isinstance(node, ast.Constant) and isinstance(node.value, int) and not isinstance(node.value, bool) and abs(node.value) < 1000:
            out.append(("const", node, None))
        elif isinstance(node, ast.IfExp) or isinstance(node, ast.If):
            out.append(("neg", node, None))
    for st in ast.walk(fn):
        if isinstance(st, (ast.Assign, ast.Return, ast.Expr, ast.AugAssign)):
            names = {n.attr if isinstance(n, ast.Attribute) else n.id for n in ast.walk(st) if isinstance(n, (ast.Name, ast.Attribute))}
            for a, b in SWAPS:
                if any(a in x for x in names) or any(b in x for x in names):
                    out.append(("swap", st, (a, b)))
    return out


def apply(kind, node, arg):
    if kind == "cmp":
        node.ops = [arg()]
    elif kind == "bin":
        node.op = arg()
    elif kind == "const":
        node.value = node.value + 1
    elif kind == "neg":
        node.test = ast.UnaryOp(op=ast.Not(), operand=node.test)
    elif kind == "swap":
        a, b = arg
        for n in ast.walk(node):
            for f in ("id", "attr"):
                v = getattr(n, f, None)
                if isinstance(v, str):
                    if a in v:
                        setattr(n, f, v.replace(a, "\0").replace(b, a).replace("\0", b))
                    elif b in v:
                        setattr(n, f, v.replace(b, a))


def main():
    prop, rel, funcs = sys.argv[1], sys.argv[2], sys.argv[3].split(",")
    rest = sys.argv[4:]
    mx = int(rest[rest.index("--max") + 1]) if "--max" in rest else 40
    jobs = rest[rest.index("--jobs") + 1] if "--jobs" in rest else "8"
    only = [rest[i + 1] for i, x in enumerate(rest) if x == "--only"]
    src = open(os.path.join("/repo", rel)).read()
    tree = ast.parse(src)
    targets = [n for n in ast.walk(tree) if isinstance(n, ast.FunctionDef) and n.name in funcs]
    plan = []
    for fi, fn in enumerate(targets):
        for si, (kind, node, arg) in enumerate(sites(fn)):
            plan.append((fi, si))
    step = max(1, len(plan) // mx)
    plan = plan[::step][:mx]
    results = []
    for fi, si in plan:
        t2 = ast.parse(src)
        fn2 = [n for n in ast.walk(t2) if isinstance(n, ast.FunctionDef) and n.name in funcs][fi]
        kind, node, arg = sites(fn2)[si]
        line = getattr(node, "lineno", 0)
        before = ast.unparse(node)[:100]
        apply(kind, node, arg)
        after = ast.unparse(node)[:100]
        if before == after:
            continue
        new_src_fn = ast.unparse(fn2)
        # splice only the mutated function's text into the original file (keeps the rest byte-identical)
        lines = src.splitlines(keepends=True)
        orig_fn = targets[fi]
        start = (orig_fn.decorator_list[0].lineno if orig_fn.decorator_list else orig_fn.lineno) - 1
        indent = " " * orig_fn.col_offset
        body = "".join(indent + l + "\n" for l in new_src_fn.splitlines())
        mutated = "".join(lines[:start]) + body + "".join(lines[orig_fn.end_lineno:])
        w = tempfile.mkdtemp(prefix="vfmutate.")
        try:
            subprocess.run(f"cd /repo && git ls-files -z | xargs -0 cp --parents -t {w}", shell=True, stderr=subprocess.DEVNULL)
            open(os.path.join(w, rel), "w").write(mutated)
            try:
                compile(mutated, rel, "exec")
            except SyntaxError:
                continue
            cmd = ["/verif/vf", "check", prop, "--tier", "quick", "--jobs", jobs] + [x for o in only for x in ("--only", o)]
            r = subprocess.run(cmd, env=dict(os.environ, DEMETER_REPO=w, VF_OUT=os.path.join(w, "out")), capture_output=True, text=True, timeout=3600)
            viol = len([l for l in r.stdout.splitlines() if l.startswith("VIOLATION")])
            first = next((re.sub(r".*replays/[A-Z0-9]+/", "", l)[:90] for l in r.stdout.splitlines() if l.startswith("VIOLATION")), "")
            results.append({"func": targets[fi].name, "line": line, "kind": kind, "before": before, "after": after, "exit": r.returncode, "violations": viol, "first": first})
            print(("KILLED  " if r.returncode == 1 else ("UNDECID " if r.returncode == 2 else ("CRASH   " if r.returncode == 3 else "SURVIVED"))),
                  f"{targets[fi].name}:{line} [{kind}] {before!r} -> {after!r}  {first}", flush=True)
        finally:
            shutil.rmtree(w, ignore_errors=True)
    k = sum(1 for r in results if r["exit"] == 1)
    print(f"== {prop} {rel}: {len(results)} mutants, {k} killed, {sum(1 for r in results if r['exit'] == 0)} survived, {sum(1 for r in results if r['exit'] in (2, 3))} undecided/crash")


if __name__ == "__main__":
    main()
