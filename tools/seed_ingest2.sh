#!/bin/bash
# usage: tools/seed_ingest2.sh <Cxx>  — second round: /tmp/w2_<Cxx>/_seed/<Cxx>_<i> -> /verif/seeded/<Cxx>_<i+2>; drop the worktree; evaluate
p=$1
names=""
for d in /tmp/w2_$p/_seed/${p}_*; do
  [ -d "$d" ] || continue
  i=${d##*_}; n=${p}_$((i+2)); mkdir -p /verif/seeded/$n
  cp $d/patch.diff $d/demo.py $d/meta.json /verif/seeded/$n/ 2>/dev/null
  names="$names $n"
done
git -C /repo worktree remove --force /tmp/w2_$p; rm -rf /tmp/w2_$p
cd /verif && [ -n "$names" ] && tools/seed_eval.sh $names
