#!/bin/bash
# usage: tools/seed_ingest2.sh <Cxx>  — second round: /tmp/w3_<Cxx>/_seed/<Cxx>_<i> -> /verif/seeded/<Cxx>_<i+2>; drop the worktree; evaluate
p=$1
names=""
for d in /tmp/w3_$p/_seed/${p}_*; do
  [ -d "$d" ] || continue
  i=${d##*_}; n=${p}_$((i+${SEED_OFFSET:-2})); mkdir -p /verif/seeded/$n
  cp $d/patch.diff $d/demo.py $d/meta.json /verif/seeded/$n/ 2>/dev/null
  names="$names $n"
done
git -C /repo worktree remove --force /tmp/w3_$p; rm -rf /tmp/w3_$p
cd /verif && [ -n "$names" ] && tools/seed_eval.sh $names
