#!/bin/sh
# usage: tools/mkpatch.sh <repo-relative-file> <python-expr-on-s> > patch.diff
# builds a git-style patch of /repo/<file> where the file text s is replaced by eval(<expr>) (e.g. "s.replace('a','b',1)")
F="$1"; EXPR="$2"
T=$(mktemp -d /tmp/mkp.XXXXXX)
mkdir -p "$T/a/$(dirname "$F")" "$T/b/$(dirname "$F")"
cp "/repo/$F" "$T/a/$F"
python3 - "$T" "$F" "$EXPR" <<'PY'
import sys
t, f, e = sys.argv[1:4]
s = open(f"{t}/a/{f}").read()
n = eval(e)
assert n != s, "expression changed nothing"
open(f"{t}/b/{f}", "w").write(n)
PY
[ $? -eq 0 ] || { rm -rf "$T"; exit 1; }
(cd "$T" && diff -u "a/$F" "b/$F")
rm -rf "$T"
