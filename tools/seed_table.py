#!/usr/bin/env python3
"""print the markdown table of seeded changes (seeded/*/meta.json + eval.json) for DESIGN.md section 10.4"""
import json, glob, os, re
print("| seed | what the change does / what it needs to manifest | caught by (first failing obligations of `./vf check <prop> --tier quick`) |")
print("|---|---|---|")
for d in sorted(glob.glob(os.path.join(os.path.dirname(__file__), "..", "seeded", "*"))):
    n = os.path.basename(d)
    try:
        m = json.load(open(d + "/meta.json")); e = json.load(open(d + "/eval.json"))
    except Exception:
        continue
    what = re.sub(r"\s+", " ", str(m.get("breaks", "")))[:230]
    needs = re.sub(r"\s+", " ", str(m.get("needs", "")))[:170]
    obl = [re.sub(r"__.*", "", x)[:70] + " / " + re.sub(r"^.*?__", "", x).split("___")[0][:60] for x in e.get("first_obligations", "").split(";") if x.strip()][:2]
    print(f"| {n} | {what} — needs: {needs} | {e.get('violations_reported')} violation(s), {e.get('check_exit')}: " + "; ".join(f"`{o}`" for o in obl) + " |")
