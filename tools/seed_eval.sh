#!/bin/bash
# usage: tools/seed_eval.sh <seed-name>...   (default: all)  — confirm each seeded change in a scratch worktree and run the
# property's quick check against it.  Writes /verif/seeded/<name>/eval.json.  /repo itself is never modified.
cd /verif
NAMES="$@"; [ -z "$NAMES" ] && NAMES=$(ls seeded)
for n in $NAMES; do
  d=/verif/seeded/$n
  prop=$(python3 -c "import json;print(json.load(open('$d/meta.json'))['property'])")
  W=$(mktemp -d /tmp/seedwt.XXXXXX); rmdir $W
  git -C /repo worktree add -q --detach $W HEAD
  # some demos locate the tree (tests/ data, scratch dirs) relative to their own path <worktree>/_seed/<name>/demo.py: run a copy from there
  # (second-round seeds were written as <prop>_1/_2 and are stored as <prop>_3/_4: both directory names are provided)
  i=${n##*_}; orig=${n%_*}_$(( (i-1) % 2 + 1 ))
  mkdir -p $W/_seed/$n $W/_seed/$orig; cp $d/demo.py $W/_seed/$n/demo.py; cp $d/demo.py $W/_seed/$orig/demo.py
  (cd $W && PYTHONPATH=$W HOME=/verif/.home /venv/bin/python $W/_seed/$orig/demo.py >/dev/null 2>&1); clean=$?
  (cd $W && git apply $d/patch.diff); applied=$?
  (cd $W && PYTHONPATH=$W HOME=/verif/.home /venv/bin/python $W/_seed/$orig/demo.py >/dev/null 2>&1); patched=$?
  base=$(python3 tools/baseline.py $W | head -1)
  git -C /repo worktree remove --force $W
  out=$(timeout 1800 ./mut.sh $d/patch.diff $prop quick 2>&1)
  viol=$(echo "$out" | grep -c "^VIOLATION")
  first=$(echo "$out" | grep "^VIOLATION" | head -3 | sed 's/.*replays\/[A-Z0-9]*\///' | tr '\n' ';')
  code=$(echo "$out" | grep "^exit=" | tail -1)
  python3 - "$d" "$prop" "$clean" "$applied" "$patched" "$base" "$viol" "$first" "$code" <<'PY'
import json,sys
d,prop,clean,applied,patched,base,viol,first,code=sys.argv[1:]
json.dump({"property":prop,"demo_exit_clean":int(clean),"patch_applies":int(applied)==0,"demo_exit_patched":int(patched),"baseline":base,
           "check":f"./vf check {prop} --tier quick (via mut.sh on a scratch copy)","violations_reported":int(viol),"first_obligations":first,"check_exit":code},open(d+"/eval.json","w"),indent=1)
PY
  echo "$n prop=$prop clean=$clean patched=$patched base=[$base] violations=$viol $code"
done
