"""debug: run one PO symbolically, print failing VCs with full models.  usage: dbg.py C06 'po-name-substr' [shape-index]"""
import sys, os, json
sys.path.insert(0, "/verif"); sys.path.insert(0, os.environ.get("DEMETER_REPO", "/repo"))
from pyvc.runner import _load, _shape_list
from pyvc.engine import Exploration, discharge
from pyvc.api import SymScenario
import z3
prop, sub = sys.argv[1], sys.argv[2]
si = int(sys.argv[3]) if len(sys.argv) > 3 else 0
pos, _ = _load(prop)
po = next(p for p in pos if sub in p.name)
shape = _shape_list(po, "quick")[si]
print("PO", po.name, "shape", shape)
def body(it, path):
    S = SymScenario(path, shape)
    it.call_value(po.fn, [S], {})
cfg = dict(po.config); cfg["contracts"] = dict(po.contracts); cfg["loops"] = dict(po.loops)
ex = Exploration(body, cfg, max_paths=cfg.get("max_paths", 4000)).run()
print("paths", ex.paths, "infeasible", ex.infeasible, "unsupported", ex.unsupported[:5])
for vc in ex.vcs:
    discharge(vc)
    if vc.verdict != "unsat" or "-all" in sys.argv:
        print("----", vc.name, vc.verdict, vc.reason, "path", vc.path_id, f"{vc.seconds:.2f}s")
        if vc.model is not None and "-v" in sys.argv:
            for d in vc.model.decls():
                print("   ", d.name(), "=", vc.model[d])
        if "-pc" in sys.argv:
            for c in vc.pc: print("   PC:", str(c)[:300])
            print("   GOAL:", str(vc.goal)[:600])
print("vcs", len(ex.vcs), "not-unsat", sum(1 for v in ex.vcs if v.verdict != "unsat"))
