#!/usr/bin/env python3
"""validate MANIFEST.json and every evidence file against the task schemas (run with /verif/.venv/bin/python)"""
import json, glob, sys, jsonschema
ok = True
jsonschema.validate(json.load(open('/verif/MANIFEST.json')), json.load(open('/root/.vp/MANIFEST.schema.json')))
es = json.load(open('/root/.vp/EVIDENCE.schema.json'))
for f in sorted(glob.glob('/verif/evidence/*.json')):
    try:
        jsonschema.validate(json.load(open(f)), es)
    except Exception as e:
        ok = False
        print("INVALID", f, str(e)[:300])
print("schemas ok" if ok else "schema errors")
sys.exit(0 if ok else 1)
