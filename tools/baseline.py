#!/usr/bin/env python3
"""Run the pinned test suite on a tree (default /repo) and compare the passing set with BASELINE.json."""
import json, subprocess, sys, tempfile, os, xml.etree.ElementTree as ET
tree = sys.argv[1] if len(sys.argv) > 1 else "/repo"
base = json.load(open("/root/.vp/BASELINE.json"))
with tempfile.TemporaryDirectory() as d:
    x = os.path.join(d, "j.xml")
    env = dict(os.environ, PYTHONPATH=tree, PYTHONDONTWRITEBYTECODE="1")
    subprocess.run(["/venv/bin/python", "-m", "pytest", "-q", "-p", "no:cacheprovider", "--timeout=900",
                    "--continue-on-collection-errors", f"--junitxml={x}"], cwd=tree, env=env,
                   stdout=subprocess.DEVNULL, stderr=subprocess.DEVNULL)
    passed = set()
    for tc in ET.parse(x).getroot().iter("testcase"):
        if not any(c.tag in ("failure", "error", "skipped") for c in tc):
            passed.add(f"{tc.get('classname')}::{tc.get('name')}")
want = set(base["stable_pass"])
missing = sorted(want - passed)
print(f"passed={len(passed)} baseline={len(want)} missing={len(missing)} extra={len(passed - want)}")
for m in missing:
    print("  MISSING", m)
sys.exit(1 if missing else 0)
