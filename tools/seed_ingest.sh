#!/bin/bash
# usage: tools/seed_ingest.sh <Cxx>  — copy the sub-agent's seeds from its scratch worktree into /verif/seeded, drop the worktree,
# then confirm + evaluate each seed (tools/seed_eval.sh)
p=$1
for d in /tmp/wt_$p/_seed/${p}_*; do
  n=$(basename $d); mkdir -p /verif/seeded/$n
  cp $d/patch.diff $d/demo.py $d/meta.json /verif/seeded/$n/ 2>/dev/null
done
git -C /repo worktree remove --force /tmp/wt_$p; rm -rf /tmp/wt_$p
cd /verif && tools/seed_eval.sh $(ls seeded | grep "^${p}_")
