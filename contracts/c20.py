"""C20 — performance metrics (demeter/result/metrics/calculator.py, core.py)."""
import pandas as pd
from pyvc.api import proof, native, exact, at, spec
from pyvc.seq import LoopSpec, RecSpec
from pyvc.sym import FLT, DEC
from demeter.result.metrics import calculator as calc


# ---- specification, in the statement's own words: "largest relative decline from a running peak to a later value"
PEAK = RecSpec("PEAK", base=lambda s: at(s, 0), step=lambda s, prev, j: prev if prev > at(s, j) else at(s, j), kind=FLT)
MDD = RecSpec("MDD", base=lambda s: 0,
              step=lambda s, prev, j: max(prev, (PEAK(s, j) - at(s, j)) / PEAK(s, j)), kind=FLT)


@spec
def positive(seq, i):
    return {"positive": at(seq, i) > 0}


@spec
def inv_withdraw(env, i):
    """Invariant of the loop in _withdraw_with_high_low at the head of iteration i (indices 0..i-1 processed)."""
    arr = env["arr"]
    ih = env["i_high"]
    g = env["g_withdraw"]
    gh = env["g_high"]
    gl = env["g_low"]
    return {
        "peak-index-in-range": 0 <= ih and ih <= i - 2,
        "peak-index-holds-running-peak-of-prefix": at(arr, ih) == PEAK(arr, i - 2),
        "best-equals-MDD-of-prefix": g == MDD(arr, i - 1),
        "best-nonneg": g >= 0,
        "witness-in-range": 0 <= gh and gh <= gl and gl <= i - 1,
        "witness-attains-best": (at(arr, gh) - at(arr, gl)) / at(arr, gh) == g,
    }


MDD_LOOPS = {("_withdraw_with_high_low", 0): LoopSpec(inv_withdraw, peel=1, name="_withdraw_with_high_low#0")}


@proof("C20", "max_draw_down/equals-definition", strength="U", loops=MDD_LOOPS)
def po_mdd(S):
    """max_draw_down(v) == MDD(v) for every positive series of any length >= 2; hence within [0, 1)."""
    nv = S.seq("net_value", kind=FLT, min_len=2, elem_pre=positive, as_series=True)
    r = calc.max_draw_down(nv)
    n = len(nv)
    S.check("equals-largest-relative-decline-from-running-peak", S.eq(r, MDD(nv, n - 1)))
    S.check("within-[0,1)", r >= 0 and r < 1)


# ---- never-falling series: drawdown 0
@spec
def positive_nondecreasing(seq, i):
    return {"positive": at(seq, i) > 0, "non-decreasing": at(seq, i) <= at(seq, i + 1)}


@spec
def inv_withdraw_rising(env, i):
    arr = env["arr"]
    ih = env["i_high"]
    return {
        "peak-index-in-range": 0 <= ih and ih <= i - 2,
        "peak-is-latest-value": at(arr, ih) == at(arr, i - 2),
        "no-drawdown-so-far": env["g_withdraw"] == 0,
        "witness-in-range": 0 <= env["g_high"] and env["g_high"] <= env["g_low"] and env["g_low"] <= i - 1,
        "witness-is-flat": at(arr, env["g_high"]) == at(arr, env["g_low"]),
    }


@proof("C20", "max_draw_down/zero-for-never-falling-series", strength="U",
       loops={("_withdraw_with_high_low", 0): LoopSpec(inv_withdraw_rising, peel=1, name="_withdraw_with_high_low#0")})
def po_mdd_rising(S):
    nv = S.seq("net_value", kind=FLT, min_len=2, elem_pre=positive_nondecreasing, as_series=True)
    S.check("zero-drawdown", calc.max_draw_down(nv) == 0)


# ---- rescaling: a lemma about the specification (induction over the prefix length), which together with
#      max_draw_down == MDD gives max_draw_down(c*v) == max_draw_down(v)
@proof("C20", "spec-lemma/MDD-invariant-under-rescaling", strength="U")
def po_mdd_scale(S):
    v = S.seq("v", kind=FLT, min_len=1, elem_pre=positive)
    c = S.flt("c", 0, None, lo_strict=True)
    w = S.seq_scaled("w", v, c)
    j = S.int("j", 0, None)
    S.assume(j < len(v))
    # base
    S.check("base/PEAK", S.eq(PEAK(w, 0), c * PEAK(v, 0)))
    S.check("base/MDD", S.eq(MDD(w, 0), MDD(v, 0)))
    # step: hypothesis at j-1 => claim at j
    if j >= 1:
        S.assume(S.eq(PEAK(w, j - 1), c * PEAK(v, j - 1)) and S.eq(MDD(w, j - 1), MDD(v, j - 1)), "induction hypothesis")
        S.check("step/PEAK", S.eq(PEAK(w, j), c * PEAK(v, j)))
        S.check("step/MDD", S.eq(MDD(w, j), MDD(v, j)))


# ================================ bounded stand-ins (pandas/numpy pipelines; outside the interpreter's reach) ==========
# The remaining metrics are one-line pandas/numpy pipelines (shift, pct_change, prod, std, cov).  They are checked by
# evaluating the contract natively on the real functions for seeded series, against a direct recomputation written
# with plain Python floats.  Labelled B: bounded, never counted as proved.
import math


def _direct_returns(vals):
    return [vals[i] / vals[i - 1] for i in range(1, len(vals))]


def _mean(xs):
    return sum(xs) / len(xs)


def _std(xs):
    m = _mean(xs)
    return math.sqrt(sum((x - m) ** 2 for x in xs) / (len(xs) - 1))


def _cov(xs, ys):
    mx, my = _mean(xs), _mean(ys)
    return sum((x - mx) * (y - my) for x, y in zip(xs, ys)) / (len(xs) - 1)


@proof("C20", "returns/equivalent-input-forms-agree", strength="B")
def po_return_forms(S):
    nv = S.seq("net_value", kind=FLT, min_len=2, max_len=40, elem_pre=positive, as_series=True)
    days = S.flt("duration_in_day", 1, 3650)
    vals = list(nv)
    init, final = vals[0], vals[-1]
    S.assume(abs(math.log(final / init)) * 365 / days < 300, "annualised figure representable as a float")
    total = calc.return_rate(init, final)
    S.check("total-return==final/init-1", S.eq(total, final / init - 1))
    S.check("return_value==final-init", S.eq(calc.return_value(init, final), final - init))
    mult = calc.return_multiple(nv)
    S.check("return-multiple-series-telescopes-to-total", S.eq(float(mult.prod()), total + 1))
    rr = calc.return_rate_series(nv)
    S.check("return-rate-series-compounds-to-total", S.eq(float((rr + 1).prod()), total + 1))
    a1 = calc.annualized_return(days, init, final)
    a2 = calc.annualized_return(days, net_values=nv)
    a3 = calc.annualized_return(days, return_rates=rr)
    S.check("annualised/endpoints==definition", S.eq(a1, (final / init) ** (365 / days) - 1))
    S.check("annualised/net-values==endpoints", S.eq(a2 + 1, a1 + 1))
    S.check("annualised/return-series==endpoints", S.eq(a3 + 1, a1 + 1))
    s1 = calc.annualized_return(days, init, final, interest_type="single")
    s2 = calc.annualized_return(days, net_values=nv, interest_type="single")
    S.check("annualised-single/net-values==endpoints", S.eq(s1, s2))
    S.check("annualised-single==definition", S.eq(s1, (final - init) / init / (days / 365)))


@proof("C20", "series-metrics/match-direct-recomputation", strength="B")
def po_series_metrics(S):
    nv = S.seq("net_value", kind=FLT, min_len=3, max_len=40, elem_pre=positive, as_series=True)
    bm = S.seq("benchmark", kind=FLT, min_len=3, max_len=40, elem_pre=positive, as_series=True)
    S.assume(len(nv) == len(bm))
    interval = S.flt("interval_in_day", 0.0006, 30)
    rf = S.flt("risk_free", 0, 0.2)
    vals, bvals = list(nv), list(bm)
    n = len(vals)
    days = interval * n
    rets = _direct_returns(vals)
    brets = _direct_returns(bvals)
    S.assume(_std(rets) > 1e-9 and _std(brets) > 1e-9, "non-degenerate series")
    S.assume(abs(math.log(vals[-1] / vals[0])) * 365 / days < 300 and abs(math.log(bvals[-1] / bvals[0])) * 365 / days < 300,
             "annualised figures representable as floats")
    rr = calc.return_rate_series(nv)
    S.check("return-series/first-is-0", float(rr.iloc[0]) == 0)
    S.check("return-series/each==v[t]/v[t-1]-1", all(S.eq(float(rr.iloc[i]) + 1, rets[i - 1]) for i in range(1, n)))
    mult = calc.return_multiple(nv)
    S.check("return-multiple/each==v[t]/v[t-1]", float(mult.iloc[0]) == 1 and all(S.eq(float(mult.iloc[i]), rets[i - 1]) for i in range(1, n)))
    vol = calc.volatility(nv.pct_change().dropna(), interval)
    S.check("volatility==sample-std*sqrt(365/interval)", S.eq(vol, _std([r - 1 for r in rets]) * math.sqrt(365 / interval)))
    total = 1.0
    for r in rets:
        total *= r
    apy = total ** (365 / days) - 1
    sh = calc.sharpe_ratio(interval, days, nv, rf)
    S.check("sharpe==(annualised-rf)/volatility", S.eq(sh, (apy - rf) / (_std(rets) * math.sqrt(365 / interval))))
    # the benchmark is a series of its own: its index labels need not be those of the net-value series (a differently
    # labelled or shifted index); returns are paired bar by bar, by position
    if S.bool("benchmark_has_its_own_index"):
        import pandas as pd
        bm = pd.Series(list(bm), index=pd.RangeIndex(5, 5 + len(bvals)))
    alpha, beta = calc.alpha_beta(nv, bm, days)
    btotal = 1.0
    for r in brets:
        btotal *= r
    bapy = btotal ** (365 / days) - 1
    want_beta = _cov(rets, brets) / _cov(brets, brets)
    S.check("beta==cov/var", S.eq(beta, want_beta))
    S.check("alpha==apy-beta*benchmark_apy", abs(alpha - (apy - want_beta * bapy)) <= 1e-7 * (1 + abs(apy) + abs(want_beta * bapy)))


@proof("C20", "max_draw_down/native-agreement-with-double-maximum", strength="B")
def po_mdd_double_max(S):
    """Cross-check of the recursive specification itself: MDD == max over i<=j of (v_i - v_j)/v_i, and rescaling."""
    nv = S.seq("net_value", kind=FLT, min_len=2, max_len=30, elem_pre=positive, as_series=True)
    c = S.flt("c", 0.001, 1000)
    vals = list(nv)
    best = 0.0
    for i in range(len(vals)):
        for j in range(i, len(vals)):
            best = max(best, (vals[i] - vals[j]) / vals[i])
    r = calc.max_draw_down(nv)
    S.check("max_draw_down==double-maximum-definition", S.eq(r, best))
    S.check("spec-MDD==double-maximum-definition", S.eq(MDD(nv, len(vals) - 1), best))
    S.check("rescaling-invariant", S.eq(calc.max_draw_down(nv * c), r) or abs(calc.max_draw_down(nv * c) - r) < 1e-12)


@proof("C20", "performance_metrics/the-REPORTED-figures-equal-their-definitions", strength="B", config={"bounded_samples": {"quick": 300, "thorough": 5000}})
def po_performance_metrics(S):
    """bounded stand-in: performance_metrics (the function a backtest reports through) on a time-indexed net-value series — volatile or
    almost flat, with a volatile or a very smooth benchmark — against plain-float recomputation from the series: drawdown by the double
    maximum (the first sample may be the peak), returns from the end points, volatility / Sharpe / alpha / beta as in series-metrics"""
    import pandas as pd
    from demeter.result.metrics.core import performance_metrics
    from demeter.result.metrics._typing import MetricEnum
    n = S.int("bars", 3, 30)
    minutes = [1, 5, 60, 1440, 7 * 1440, 36 * 60][S.int("interval", 0, 5)]
    smooth_b = S.bool("smooth_benchmark")
    v0 = S.flt("first_value", 10, 10 ** 6)
    steps = [S.flt(f"step{i}", 0.7, 1.3) for i in range(30)][:n - 1]
    bsteps = [S.flt(f"bstep{i}", 0.8, 1.25) for i in range(30)][:n - 1]
    if smooth_b:
        bsteps = [1 + (b - 1) * 1e-5 for b in bsteps]           # a stable pair / interest-bearing index: per-bar moves of a few 1e-6
    vals, bvals = [v0], [1000.0]
    for i in range(n - 1):
        vals.append(vals[-1] * steps[i])
        bvals.append(bvals[-1] * bsteps[i])
    idx = pd.date_range("2024-01-01", periods=n, freq=f"{minutes}min")
    rf = S.flt("risk_free", 0, 0.2)
    interval = minutes / 1440
    days = interval * n
    rets, brets = _direct_returns(vals), _direct_returns(bvals)
    S.assume(_std(rets) > 1e-12 and _std(brets) > 0, "non-degenerate series")
    S.assume(abs(math.log(vals[-1] / vals[0])) * 365 / days < 300 and abs(math.log(bvals[-1] / bvals[0])) * 365 / days < 300, "annualised figures representable")
    out = performance_metrics(pd.Series(vals, index=idx), rf, pd.Series(bvals, index=idx))
    best = 0.0
    for i in range(n):
        for j in range(i, n):
            best = max(best, (vals[i] - vals[j]) / vals[i])
    S.check("max_draw_down==largest-relative-decline-from-a-running-peak", abs(out[MetricEnum.max_draw_down] - best) <= 1e-9)
    S.check("return_rate==final/init-1", S.eq(out[MetricEnum.return_rate] + 1, vals[-1] / vals[0]))
    apy = (vals[-1] / vals[0]) ** (365 / days) - 1
    S.check("annualized_return==(final/init)^(365/days)-1", S.eq(out[MetricEnum.annualized_return] + 1, apy + 1))
    vol = _std([r - 1 for r in rets]) * math.sqrt(365 / interval)
    S.check("volatility==sample-std*sqrt(365/interval)", S.eq(out[MetricEnum.volatility], vol))
    S.check("sharpe==(annualised-rf)/volatility", abs(out[MetricEnum.sharpe_ratio] - (apy - rf) / vol) <= 1e-7 * (1 + abs((apy - rf) / vol)))
    want_beta = _cov(rets, brets) / _cov(brets, brets)
    bapy = (bvals[-1] / bvals[0]) ** (365 / days) - 1
    S.check("beta==cov/var(also-for-a-smooth-benchmark)", abs(out[MetricEnum.beta] - want_beta) <= 1e-6 * (1 + abs(want_beta)))
    S.check("alpha==apy-beta*benchmark_apy", abs(out[MetricEnum.alpha] - (apy - want_beta * bapy)) <= 1e-6 * (1 + abs(apy) + abs(want_beta * bapy)))
