"""Models of demeter classes whose constructors the interpreter cannot run (stated in every evidence file that uses them)."""
from pyvc.interp import DEFAULT_MODELS, m_unitdecimal
from demeter._typing import UnitDecimal

# UnitDecimal(value, unit): the unit string is dropped, the number is kept (DESIGN §2.1)
DEFAULT_MODELS[UnitDecimal] = m_unitdecimal(UnitDecimal)
