"""C11 — Aave borrow/withdraw limits and risk figures (demeter/aave/market.py, core.py)."""
from decimal import Decimal
from pyvc.api import proof, native, exact, spec
from .common import REJECT
from .aave_common import *   # noqa
from .aave_common import AAVE_CONTRACTS, SHAPES, SHAPES_WITH_SUPPLY, SHAPES_WITH_SUPPLY_OF_OP, SHAPES_WITH_DEBT, world, INF


@proof("C11", "risk-figures/equal-v3-definitions", strength="S", shapes=SHAPES, contracts=AAVE_CONTRACTS)
def po_figures(S):
    """health factor = sum(collateral value x LT) / total debt (inf without debt); weighted max-LTV and liquidation threshold
    = value-weighted means over the collateral (inf without collateral); ltv = debt / supply."""
    w = world(S)
    m = w.market
    debt = total_debt_value(m)
    coll = total_collateral_value(m)
    hf = m.health_factor
    if debt == 0:
        S.check("health-factor-inf-without-debt", hf == INF)
    else:
        S.check("health-factor", S.eq(hf, weighted_collateral(m, "LT") / exact(debt)))
    mx = m.max_ltv
    lt = m.liquidation_threshold
    if coll == 0:
        S.check("max-ltv-inf-without-collateral", mx == INF and lt == INF)
    else:
        S.check("max-ltv", S.eq(mx, weighted_collateral(m, "LTV") / exact(coll)))
        S.check("liquidation-threshold", S.eq(lt, weighted_collateral(m, "LT") / exact(coll)))
        S.check("max-ltv<=liquidation-threshold<=1", S.le(mx, lt) and S.le(lt, 1))
    sup = total_supply_value(m)
    if sup == 0:
        S.check("ltv-inf-without-supply", m.ltv == INF)
    else:
        S.check("ltv", S.eq(m.ltv, exact(debt) / exact(sup)))
    S.check("totals", S.eq(m.total_supply_value, sup) and S.eq(m.total_collateral_value, coll) and S.eq(m.total_borrows_value, debt))


@proof("C11", "borrow/accepted=>debt-covered-by-collateral-x-max-ltv", strength="S", shapes=SHAPES, contracts=AAVE_CONTRACTS,
       covers=lambda sh: ("accepted",) if sh["supplies"] else ())
def po_borrow_accepted(S):
    w = world(S)
    m = w.market
    amount = S.dec("amount", None, None)
    ok = True
    try:
        m.borrow(w.op, amount)
    except REJECT:
        ok = False
    if ok:
        S.cover("accepted")
        S.check("all-debt-incl-new<=collateral-x-weighted-max-ltv", S.le(total_debt_value(m), weighted_collateral(m, "LTV")))
        S.check("health-factor>=1-afterwards", hf_at_least_one(m))
        S.check("borrowing-enabled-for-token", m._risk_parameters.at[w.op.name, "borrowingEnabled"] == True)
    else:
        S.cover("rejected")
    S.check("no-collateral=>rejected", total_collateral_value(m) > 0 or not ok)


@proof("C11", "borrow/within-limits=>accepted", strength="S", shapes=SHAPES_WITH_SUPPLY, contracts=AAVE_CONTRACTS)
def po_borrow_within(S):
    """A request that satisfies the limits with margin (and the token's borrow flag) is accepted."""
    w = world(S)
    m = w.market
    amount = S.dec("amount", 0, 10 ** 12, lo_strict=True)
    S.assume(m._risk_parameters.at[w.op.name, "borrowingEnabled"] == True)
    coll = total_collateral_value(m)
    wl = weighted_collateral(m, "LTV")
    S.assume(coll > 0 and wl > 0)
    S.assume(weighted_collateral(m, "LT") > total_debt_value(m) * Decimal("1.0001"))          # HF > 1 with margin
    S.assume((total_debt_value(m) + amount * price(m, w.op)) * Decimal("1.0001") <= wl)           # inside max-LTV with margin
    before = wallet_balance(w, w.op)
    ok = True
    try:
        m.borrow(w.op, amount)
    except REJECT:
        ok = False
    S.check("accepted", ok)


@proof("C11", "borrow/beyond-limit=>rejected", strength="S", shapes=SHAPES, contracts=AAVE_CONTRACTS)
def po_borrow_beyond(S):
    w = world(S)
    m = w.market
    amount = S.dec("amount", 0, 10 ** 12, lo_strict=True)
    wl = weighted_collateral(m, "LTV")
    S.assume(total_debt_value(m) + amount * price(m, w.op) > wl)
    ok = True
    try:
        m.borrow(w.op, amount)
    except REJECT:
        ok = False
    S.check("rejected", not ok)


@proof("C11", "withdraw/accepted=>health-factor>=1", strength="S", shapes=SHAPES_WITH_SUPPLY_OF_OP, contracts=AAVE_CONTRACTS, covers=("accepted",))
def po_withdraw_accepted(S):
    w = world(S)
    m = w.market
    amount = S.dec("amount", None, None)
    was_collateral = m._supplies[w.op].collateral
    safe_before = hf_at_least_one(m)
    ok = True
    try:
        m.withdraw(w.op, amount)
    except REJECT:
        ok = False
    if ok:
        S.cover("accepted")
        S.check("collateral-withdrawal=>health-factor>=1(mod-1e-18-dust)", not was_collateral or hf_at_least_one_mod_dust(m, w.op))
        S.check("health-factor>=1-preserved(mod-1e-18-dust)", not safe_before or hf_at_least_one_mod_dust(m, w.op))


@proof("C11", "withdraw/within-limits=>accepted;beyond=>rejected", strength="S", shapes=SHAPES_WITH_SUPPLY_OF_OP, contracts=AAVE_CONTRACTS)
def po_withdraw_limits(S):
    w = world(S)
    m = w.market
    amount = S.dec("amount", 0, 10 ** 12, lo_strict=True)
    have = supply_amount(m, w.op)
    is_coll = m._supplies[w.op].collateral
    # health factor after removing `amount` of the token from the collateral
    after_num = weighted_collateral(m, "LT") - (amount * price(m, w.op) * LT(m, w.op) if is_coll else 0)
    debt = total_debt_value(m)
    ok = True
    try:
        m.withdraw(w.op, amount)
    except REJECT:
        ok = False
    if amount <= have and (debt == 0 or after_num >= debt * Decimal("1.0001")):
        S.cover("inside")
        S.check("inside-limits=>accepted", ok)
    if amount > have * Decimal("1.0001") or (is_coll and debt > 0 and after_num < debt):
        S.cover("beyond")
        S.check("beyond-limits=>rejected", not ok)


@proof("C11", "change_collateral/accepted=>health-factor>=1", strength="S", shapes=SHAPES_WITH_SUPPLY_OF_OP, contracts=AAVE_CONTRACTS, covers=("accepted",))
def po_change_collateral(S):
    w = world(S)
    m = w.market
    flag = S.bool("new_flag")
    old = m._supplies[w.op].collateral
    safe_before = hf_at_least_one(m)
    ok = True
    try:
        m.change_collateral(w.op, flag)
    except REJECT:
        ok = False
    if ok:
        S.cover("accepted")
        S.check("flag-set", m._supplies[w.op].collateral == flag)
        S.check("disabling-collateral=>health-factor>=1", not (old and not flag) or hf_at_least_one(m))
        S.check("health-factor>=1-preserved", not safe_before or hf_at_least_one(m))
    else:
        S.check("only-rejected-when-it-would-be-unsafe", old and not flag)
        S.check("flag-unchanged-on-reject", m._supplies[w.op].collateral == old)


@proof("C11", "supply,repay/preserve-health-factor>=1", strength="S", shapes=SHAPES_WITH_DEBT, contracts=AAVE_CONTRACTS, covers=("accepted",))
def po_preserve(S):
    w = world(S)
    m = w.market
    amount = S.dec("amount", None, None)
    do_supply = S.bool("op_is_supply")
    coll_flag = S.bool("collateral_flag")
    S.assume(hf_at_least_one(m))
    ok = True
    try:
        if do_supply:
            m.supply(w.op, amount, coll_flag)
        else:
            m.repay(w.op, amount)
    except REJECT:
        ok = False
    if ok:
        S.cover("accepted")
        S.check("health-factor>=1-preserved", hf_at_least_one(m))


@proof("C11", "get_max_borrow_amount/accepted-and-beyond-rejected", strength="S", shapes=SHAPES_WITH_SUPPLY, contracts=AAVE_CONTRACTS)
def po_max_borrow(S):
    """For accounts with collateral (and a debt inside the limit) borrowing the helper amount is accepted."""
    w = world(S)
    m = w.market
    S.assume(m._risk_parameters.at[w.op.name, "borrowingEnabled"] == True)
    wl = weighted_collateral(m, "LTV")
    S.assume(total_collateral_value(m) > 0 and wl > total_debt_value(m))
    mx = m.get_max_borrow_amount(w.op)
    S.check("helper-amount-positive", mx > 0)
    S.check("helper-amount-is-99%-of-the-headroom", S.eq(mx * price(m, w.op), (wl - total_debt_value(m)) * Decimal("0.99")))
    ok = True
    try:
        m.borrow(w.op, mx)
    except REJECT:
        ok = False
    S.check("helper-amount-accepted", ok)


@proof("C11", "get_max_withdraw_amount/accepted-not-above-supply", strength="S", shapes=SHAPES_WITH_SUPPLY_OF_OP, contracts=AAVE_CONTRACTS)
def po_max_withdraw(S):
    w = world(S)
    m = w.market
    S.assume(hf_at_least_one(m))
    have = supply_amount(m, w.op)
    mx = m.get_max_withdraw_amount(w.op)
    S.check("never-exceeds-supply", S.le(mx, have))
    S.check("never-negative", mx >= 0)
    kept_exact = have - mx
    S.check("keeps-at-least-what-health-factor-1-needs", not m._supplies[w.op].collateral or total_debt_value(m) == 0 or mx == 0 or
            S.le(total_debt_value(m), weighted_collateral(m, "LT") - mx * price(m, w.op) * LT(m, w.op)))
    S.check("everything-withdrawable-without-debt", total_debt_value(m) != 0 or S.eq(mx, have))
    if mx > 0:
        ok = True
        try:
            m.withdraw(w.op, mx)
        except REJECT:
            ok = False
        S.check("helper-amount-accepted", ok)


@proof("C11", "next-bar/limits-follow-THIS-bar's-indices-and-prices(after-the-views-were-read-in-an-earlier-bar)", strength="S",
       shapes={k: [s for s in v if s["supplies"] and s["borrows"]][:2] for k, v in SHAPES.items()}, contracts=AAVE_CONTRACTS, config={"max_seconds": 600}, covers=("accepted",))
def po_next_bar(S):
    """The limits are stated per bar.  In bar 0 the strategy reads every view (and may have a request rejected) — whatever the market
    memoises is then filled; bar 1 brings new indices and prices; a borrow / collateral withdrawal accepted in bar 1 must satisfy the
    limits at bar 1's values."""
    from demeter.aave._typing import AaveMarketStatus
    from .worlds import T1
    w = world(S)
    m = w.market
    read_views(m)
    try:
        m.borrow(w.op, S.dec("amount_bar0", 10 ** 13, 10 ** 14))      # a hopeless request: rejected after the market looked at its debts
    except REJECT:
        pass
    n0 = len(w.actions)
    pr = add_next_bar(S, w, "next_")
    m.set_market_status(AaveMarketStatus(T1, None), pr)
    amount = S.dec("amount", None, None)
    if S.bool("is_borrow"):
        try:
            m.borrow(w.op, amount)
        except REJECT:
            return
        if len(w.actions) > n0:
            S.cover("accepted")
        S.check("bar-1:accepted-borrow=>all-debt<=collateral-x-weighted-max-ltv(at-bar-1)", S.le(total_debt_value(m), weighted_collateral(m, "LTV")))
    else:
        if w.op not in m._supplies:
            return
        was_collateral = m._supplies[w.op].collateral
        try:
            m.withdraw(w.op, amount)
        except REJECT:
            return
        S.check("bar-1:accepted-collateral-withdrawal=>health-factor>=1(at-bar-1,mod-dust)", not was_collateral or hf_at_least_one_mod_dust(m, w.op))


@proof("C11", "same-bar/second-borrow-is-judged-against-the-debt-the-first-left", strength="S",
       shapes={k: [s for s in v if s["supplies"]][:3] for k, v in SHAPES.items()}, contracts=AAVE_CONTRACTS, covers=("both-accepted",), config={"max_seconds": 600})
def po_two_borrows(S):
    """'covers all debt including the new one' — all debt, also what was borrowed a moment ago in the same bar (of a token that already had
    debt or not): after two accepted borrows the total debt is within collateral x weighted max-LTV."""
    w = world(S)
    m = w.market
    try:
        m.borrow(w.op, S.dec("amount_1", None, None))
        m.borrow(w.op, S.dec("amount_2", None, None))
    except REJECT:
        return
    S.cover("both-accepted")
    S.check("after-two-accepted-borrows:all-debt<=collateral-x-weighted-max-ltv", S.le(total_debt_value(m), weighted_collateral(m, "LTV")))
    S.check("health-factor>=1-afterwards", hf_at_least_one(m))
