"""C04 — a rejected operation leaves wallet, positions, order book and action log intact.

Exceptional postcondition, one PO per operation: from an arbitrary state of the listed shape, with arbitrary (also negative,
zero, oversized) arguments, if the operation raises a rejection (contracts.common.REJECT) then the snapshot of everything the
statement lists — wallet balances, every market's positions / debts / holdings, the visible order book, the action log —
is structurally identical to the snapshot before the call.  Any other exception type escaping is itself a failed obligation.
The rejection causes are not enumerated by hand: every raise site the interpreter can reach from the real source (explicit
raise / require / assert, KeyError on an unknown position, Asset.sub overdraft, division by zero, the write_func gate of a
closed market) is explored, each as its own path."""
from decimal import Decimal
from pyvc.api import proof, native, exact, spec
from .common import REJECT
from .aave_common import AAVE_CONTRACTS, SHAPES as AAVE_SHAPES, SHAPES_WITH_SUPPLY_OF_OP, SHAPES_WITH_DEBT_OF_OP, world as aave_world_of, raw_state, dump
from .worlds import deribit_world, gmx_world, gmx2_world, squeeth_world, uni_world, uni_at_bar, SQ_LP, H0, H0_1
from .c14 import SQ_CONTRACTS
from .c17 import _v2_contracts
from demeter.uniswap._typing import PositionInfo


def _closed(shapes):
    """every operation is also tried on a closed market (write_func gate)"""
    return {k: [dict(s, closed=c) for s in v for c in (False, True)] for k, v in shapes.items()}


def _run(S, snap, op, label="rejected-operation-leaves-everything-intact"):
    before = dump(snap())
    try:
        op()
    except REJECT:
        S.cover("rejected")
        S.unchanged(label, before, dump(snap()))
        return False
    S.cover("accepted")
    return True


# ================================================================================================ Aave
def _aave(S):
    w = aave_world_of(S)
    if S.shape.get("closed"):
        w.market.is_open = False
    return w


@proof("C04", "aave/supply", strength="S", shapes=_closed(AAVE_SHAPES), contracts=AAVE_CONTRACTS, covers=("rejected",))
def po_aave_supply(S):
    w = _aave(S)
    a, f = S.dec("amount", None, None), S.bool("collateral")
    _run(S, lambda: raw_state(w), lambda: w.market.supply(w.op, a, f))


@proof("C04", "aave/withdraw", strength="S", shapes=_closed(AAVE_SHAPES), contracts=AAVE_CONTRACTS, covers=("rejected",))
def po_aave_withdraw(S):
    w = _aave(S)
    a = S.dec("amount", None, None)
    _run(S, lambda: raw_state(w), lambda: w.market.withdraw(w.op, a))


@proof("C04", "aave/borrow", strength="S", shapes=_closed(AAVE_SHAPES), contracts=AAVE_CONTRACTS, covers=("rejected",))
def po_aave_borrow(S):
    w = _aave(S)
    a = S.dec("amount", None, None)
    _run(S, lambda: raw_state(w), lambda: w.market.borrow(w.op, a))


@proof("C04", "aave/repay(cash-or-collateral)", strength="S", shapes=_closed(AAVE_SHAPES), contracts=AAVE_CONTRACTS, covers=("rejected",))
def po_aave_repay(S):
    w = _aave(S)
    a = S.dec("amount", None, None)
    with_coll = S.bool("repay_with_collateral")
    other = [t for t in w.tokens.values()][0]
    _run(S, lambda: raw_state(w), lambda: w.market.repay(w.op, a, with_coll, other))


@proof("C04", "aave/change_collateral", strength="S", shapes={k: [s for s in v if s["closed"] or s["borrows"] or s["op"] not in s["supplies"]] for k, v in _closed(AAVE_SHAPES).items()},
       contracts=AAVE_CONTRACTS, covers=("rejected",))
def po_aave_change(S):
    w = _aave(S)
    f = S.bool("flag")
    _run(S, lambda: raw_state(w), lambda: w.market.change_collateral(w.op, f))


@proof("C04", "aave/rejected-call-leaves-the-OBSERVABLE-positions-intact(views-read-through-the-market)", strength="S",
       shapes={k: [dict(s, closed=False) for s in v if s["op"] in s["supplies"]] for k, v in AAVE_SHAPES.items()}, contracts=AAVE_CONTRACTS, covers=("rejected",),
       config={"max_seconds": 600})
def po_aave_observable(S):
    """'positions and debts exactly as before' as a user observes them: the supplies / borrows listings, their values, the health
    factor and the market balance READ THROUGH THE MARKET (memoised views included) before the call and after a rejected call."""
    from .aave_common import read_views
    w = _aave(S)
    m = w.market
    which = S.int("which_operation", 0, 2)
    a = S.dec("amount", None, None)
    before = dump(read_views(m))
    try:
        if which == 0:
            m.withdraw(w.op, a)
        elif which == 1:
            m.change_collateral(w.op, S.bool("flag"))
        else:
            m.repay(w.op, a, True, w.op)
    except REJECT:
        S.cover("rejected")
        S.unchanged("rejected-operation-leaves-the-observable-views-intact", before, dump(read_views(m)))


# ================================================================================================ Deribit
DERIBIT_SHAPES = {"quick": [{"n": 2, "held": True, "state": "open", "ts": "open"}, {"n": 2, "held": False, "state": "open", "ts": "open"},
                            {"n": 1, "held": True, "state": "closed", "ts": "open"}, {"n": 2, "held": True, "state": "open", "ts": "closed"}],
                  "thorough": [{"n": 2, "held": True, "state": "open", "ts": "open"}, {"n": 2, "held": False, "state": "open", "ts": "open"},
                               {"n": 1, "held": True, "state": "closed", "ts": "open"}, {"n": 2, "held": True, "state": "open", "ts": "closed"},
                               {"n": 3, "held": True, "state": "open", "ts": "open"}]}


def _deribit(S):
    sh = S.shape
    return deribit_world(S, (("I0", "CALL", sh["state"]),), sh["n"], sh["n"], ("I0",) if sh["held"] else (), H0 if sh["ts"] == "open" else H0_1)


@native
def deribit_state(w):
    m = w.market
    d = m._market_status.data
    return {"wallet": {t.name: a.balance for t, a in w.broker._assets.data.items()}, "cash": m.balance,
            "positions": {k: dict(vars(v)) for k, v in m.positions.items()},
            "book": {(n, c): d.at[n, c] for n in d.index for c in ("asks", "bids")},
            "input_frame": {(str(i), c): m._data.at[i, c] for i in m._data.index for c in ("asks", "bids")},
            "actions": len(w.actions)}


@proof("C04", "deribit/buy", strength="S", shapes=DERIBIT_SHAPES, covers=("rejected",), config={"max_seconds": 600})
def po_deribit_buy(S):
    w = _deribit(S)
    a = S.dec("amount", None, None)
    name = "I0" if not S.bool("unknown_instrument") else "NOPE"
    limit = S.dec("price_in_token", 0, 10, lo_strict=True) if S.bool("with_limit_price") else None
    _run(S, lambda: deribit_state(w), lambda: w.market.buy(name, a, limit))


@proof("C04", "deribit/sell", strength="S", shapes=DERIBIT_SHAPES, covers=("rejected",), config={"max_seconds": 600})
def po_deribit_sell(S):
    w = _deribit(S)
    a = S.dec("amount", None, None)
    name = "I0" if not S.bool("unknown_instrument") else "NOPE"
    limit = S.dec("price_in_token", 0, 10, lo_strict=True) if S.bool("with_limit_price") else None
    _run(S, lambda: deribit_state(w), lambda: w.market.sell(name, a, limit))


@proof("C04", "deribit/deposit,withdraw", strength="S", shapes={"quick": DERIBIT_SHAPES["quick"][:1], "thorough": DERIBIT_SHAPES["quick"][:1]}, covers=("rejected",))
def po_deribit_cash(S):
    w = _deribit(S)
    a = S.dec("amount", None, None)
    if S.bool("is_deposit"):
        _run(S, lambda: deribit_state(w), lambda: w.market.deposit(a))
    else:
        _run(S, lambda: deribit_state(w), lambda: w.market.withdraw(a))


# ================================================================================================ GMX
@native
def gmx_state(w):
    m = w.market
    return {"wallet": {t.name: a.balance for t, a in w.broker._assets.data.items()}, "glp": m.glp_amount, "reward": m.reward, "actions": len(w.actions)}


@native
def gmx2_state(w):
    return {"wallet": {t.name: a.balance for t, a in w.broker._assets.data.items()}, "gm": w.market.amount, "actions": len(w.actions)}


@proof("C04", "gmx-v1/buy_glp,sell_glp", strength="S", shapes={"quick": [{"tokens": ["WETH", "WAVAX"]}], "thorough": [{"tokens": ["WETH", "WAVAX"]}, {"tokens": ["WETH", "WAVAX", "USDC"]}]},
       covers=("rejected",), config={"max_seconds": 600})
def po_gmx1(S):
    w = gmx_world(S, tuple(S.shape["tokens"]))
    tok = w.tokens["WETH"]
    total = 0
    for n in w.tokens:
        total = total + w.data[n.lower() + "_weight"]
    S.assume(total > 0)
    a = S.dec("amount", None, None)
    if S.bool("is_buy"):
        _run(S, lambda: gmx_state(w), lambda: w.market.buy_glp(tok, a))
    else:
        _run(S, lambda: gmx_state(w), lambda: w.market.sell_glp(tok, a))


@proof("C04", "gmx-v2/deposit,withdraw", strength="S", shapes={"quick": [{"virtual": True}], "thorough": [{"virtual": True}, {"virtual": False}]}, covers=("rejected",),
       contracts=_v2_contracts(), config={"max_seconds": 600})
def po_gmx2(S):
    w = gmx2_world(S, S.shape["virtual"])
    d = w.data
    S.assume(d["longAmount"] * d["longPrice"] + d["shortAmount"] * d["shortPrice"] > 0)
    if S.bool("is_deposit"):
        la, sa = S.flt("long_amount", None, None), S.flt("short_amount", None, None)
        _run(S, lambda: gmx2_state(w), lambda: w.market.deposit(la, sa))
    else:
        a = S.flt("gm_amount", None, None)
        _run(S, lambda: gmx2_state(w), lambda: w.market.withdraw(a))


# ================================================================================================ Squeeth
@native
def squeeth_state(w):
    m = w.market
    return {"wallet": {t.name: a.balance for t, a in w.broker._assets.data.items()},
            "vaults": {k.id: (v.collateral_amount, v.osqth_short_amount, str(v.uni_nft_id)) for k, v in m.vault.items()}, "max_vault_id": m._max_vault_id,
            "uni_positions": {str(k): dict(vars(v)) for k, v in w.uni._positions.items()}, "actions": len(w.actions)}


SQ_SHAPES = {"quick": [{"lp": False}, {"lp": True}], "thorough": [{"lp": False}, {"lp": True}]}


@proof("C04", "squeeth/open_deposit_mint", strength="S", shapes=SQ_SHAPES, contracts=SQ_CONTRACTS, covers=("rejected",), config={"max_seconds": 600})
def po_sq_mint(S):
    from demeter.squeeth import VaultKey
    w = squeeth_world(S, (S.shape["lp"],))
    dep, mint = S.dec("deposit_eth", None, None), S.dec("mint_osqth", None, None)
    vk = w.keys[0] if not S.bool("new_vault") else None
    _run(S, lambda: squeeth_state(w), lambda: w.market.open_deposit_mint(dep, mint, vk))


@proof("C04", "squeeth/burn_and_withdraw", strength="S", shapes=SQ_SHAPES, contracts=SQ_CONTRACTS, covers=("rejected",), config={"max_seconds": 600})
def po_sq_burn(S):
    from demeter.squeeth import VaultKey
    w = squeeth_world(S, (S.shape["lp"],))
    burn, wd = S.dec("burn_osqth", None, None), S.dec("withdraw_eth", None, None)
    vk = w.keys[0] if not S.bool("unknown_vault") else VaultKey(99)
    _run(S, lambda: squeeth_state(w), lambda: w.market.burn_and_withdraw(vk, burn, wd))


@proof("C04", "squeeth/deposit,withdraw_uni_position,deposit_uni_position", strength="S", shapes=SQ_SHAPES, contracts=SQ_CONTRACTS, covers=("rejected",), config={"max_seconds": 600})
def po_sq_misc(S):
    w = squeeth_world(S, (S.shape["lp"],))
    vk = w.keys[0]
    which = S.int("which_operation", 0, 2)
    a = S.dec("eth", None, None)
    if which == 0:
        _run(S, lambda: squeeth_state(w), lambda: w.market.deposit(vk, a))
    elif which == 1:
        _run(S, lambda: squeeth_state(w), lambda: w.market.withdraw_uni_position(vk, SQ_LP))
    else:
        _run(S, lambda: squeeth_state(w), lambda: w.market.deposit_uni_position(vk, SQ_LP))


# ================================================================================================ Uniswap
import z3
from pyvc.sym import SV, DEC, INT


def get_liquidity_contract(interp, args, kwargs):
    """CONTRACT of liquitidy_math.get_liquidity (obligations: C07): a non-negative integer, a function of its arguments"""
    from pyvc.sym import lift, as_int_term, as_real_term
    p = interp.path
    f = p.uf("uni_liquidity", z3.IntSort(), z3.IntSort(), z3.IntSort(), z3.RealSort(), z3.RealSort(), z3.IntSort())
    from .c14 import _as_int
    r = f(_as_int(args[0]), _as_int(args[1]), _as_int(args[2]), as_real_term(lift(args[3])), as_real_term(lift(args[4])))
    p.assume(r >= 0, "contract get_liquidity: non-negative integer, a function of (sqrt price, ticks, amounts) (C07)")
    return SV(r, INT)


def _uni_contracts():
    import demeter.uniswap.core as core
    import demeter.uniswap.market as umarket
    from .c14 import get_amounts_contract, sqrt_of_price_contract
    return {core.get_amounts: get_amounts_contract, core.get_liquidity: get_liquidity_contract, umarket.base_unit_price_to_sqrt_price_x96: sqrt_of_price_contract}


UNI_CONTRACTS = _uni_contracts()
# the existing position of uni_world sits at symbolic ticks; operations use concrete ticks (a new key) or the existing key
UNI_SHAPES = {"quick": [{"q0": True, "ticks": [-600, 600]}, {"q0": False, "ticks": [-600, 600]}, {"q0": True, "ticks": [600, -600]}, {"q0": True, "ticks": [-601, 600]}],
              "thorough": [{"q0": True, "ticks": [-600, 600]}, {"q0": False, "ticks": [-600, 600]}, {"q0": True, "ticks": [600, -600]}, {"q0": True, "ticks": [-601, 600]},
                           {"q0": False, "ticks": [0, 0]}]}


@native
def uni_state(w):
    return {"wallet": {t.name: a.balance for t, a in w.broker._assets.data.items()},
            "positions": {str((str(k.lower_tick), str(k.upper_tick))): dict(vars(v)) for k, v in w.market._positions.items()}, "actions": len(w.actions)}


def _uni(S):
    return uni_at_bar(uni_world(S, 6, 18, S.shape["q0"], 1, 0.05))


@proof("C04", "uniswap/add_liquidity_by_tick", strength="S", shapes=UNI_SHAPES, contracts=UNI_CONTRACTS, covers=("rejected",), config={"max_seconds": 600})
def po_uni_add(S):
    w = _uni(S)
    lo, up = S.shape["ticks"]
    b, q = S.dec("base_max", None, None), S.dec("quote_max", None, None)
    _run(S, lambda: uni_state(w), lambda: w.market.add_liquidity_by_tick(lo, up, b, q, -1, -1, False))


@proof("C04", "uniswap/remove_liquidity,collect_fee", strength="S", shapes={"quick": UNI_SHAPES["quick"][:2], "thorough": UNI_SHAPES["quick"][:2]}, contracts=UNI_CONTRACTS,
       covers=("rejected",), config={"max_seconds": 600})
def po_uni_remove(S):
    w = _uni(S)
    key = w.pos_keys[0] if not S.bool("unknown_position") else PositionInfo(-60, 60)
    if S.bool("is_remove"):
        liq = S.int("liquidity", None, None)
        coll = S.bool("collect")
        _run(S, lambda: uni_state(w), lambda: w.market.remove_liquidity(key, liq, coll))
    else:
        m0, m1 = S.dec("max0", None, None), S.dec("max1", None, None)
        _run(S, lambda: uni_state(w), lambda: w.market.collect_fee(key, m0, m1))


@proof("C04", "uniswap/buy,sell,swap", strength="S", shapes={"quick": UNI_SHAPES["quick"][:2], "thorough": UNI_SHAPES["quick"][:2]}, contracts=UNI_CONTRACTS, covers=("rejected",))
def po_uni_swap(S):
    w = _uni(S)
    a = S.dec("amount", None, None)
    which = S.int("which_operation", 0, 2)
    if which == 0:
        _run(S, lambda: uni_state(w), lambda: w.market.buy(a))
    elif which == 1:
        _run(S, lambda: uni_state(w), lambda: w.market.sell(a))
    else:
        _run(S, lambda: uni_state(w), lambda: w.market.swap(a, w.market.base_token, w.market.quote_token))


# ================================================================================================ wallet
@proof("C04", "wallet/Asset.sub,Broker.subtract_from_balance,swap_by_from,swap_by_to", strength="S", shapes={"quick": [{"q0": True}], "thorough": [{"q0": True}, {"q0": False}]})
def po_wallet(S):
    from .worlds import prices
    w = uni_at_bar(uni_world(S, 6, 18, S.shape["q0"], 0, 0.05))
    t0, t1 = w.pool.token0, w.pool.token1
    a = S.dec("amount", None, None)
    pr = prices({t0.name: S.dec("p0", 0, None, lo_strict=True), t1.name: S.dec("p1", 0, None, lo_strict=True)})
    which = S.int("which_operation", 0, 2)
    if which == 0:
        _run(S, lambda: uni_state(w), lambda: w.broker.subtract_from_balance(t0, a))
    elif which == 1:
        _run(S, lambda: uni_state(w), lambda: w.broker.swap_by_from(t0, t1, a, pr))
    else:
        _run(S, lambda: uni_state(w), lambda: w.broker.swap_by_to(t0, t1, a, pr))
