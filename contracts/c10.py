"""C10 — Aave balances accrue exactly with the indices; operations move stated amounts (demeter/aave/market.py, core.py, helper.py).

Representation invariant REP: the balance a user sees is base_amount x the CURRENT index (get_supply / get_borrow / supplies /
borrows).  A new bar and a liquidation-free update() have the positions outside their frame, so between operations a balance
moves only with the index: amount(now) == amount(then) x index_now / index_then for ANY index path.  Every operation moves
exactly the stated amount between wallet and position at the current index.  Histories follow by induction over bars and
operations; two direct two-bar / two-operation obligations (accrual across a bar between two supplies, split vs merged
operations) are proved on top."""
from decimal import Decimal
from pyvc.api import proof, native, exact, spec
from .common import REJECT
from .aave_common import *   # noqa
from .aave_common import (AAVE_CONTRACTS, SHAPES, SHAPES_WITH_SUPPLY_OF_OP, SHAPES_WITH_DEBT_OF_OP, SHAPES_WITH_SUPPLY, SHAPES_WITH_DEBT, world,
                          raw_state, dump, DUST, add_next_bar, wallet_balance)
from demeter.aave._typing import AaveMarketStatus
from .worlds import T1
from .c12 import positions, wallet


@proof("C10", "views/amount==base-x-current-index", strength="S", shapes=SHAPES, contracts=AAVE_CONTRACTS)
def po_rep(S):
    w = world(S)
    m = w.market
    for t in m._supplies:
        S.check("get_supply.amount:" + t.name, S.eq(m.get_supply(t).amount, m._supplies[t].base_amount * liq_index(m, t)))
        S.check("supplies[].amount:" + t.name, S.eq(m.supplies[t].amount, m._supplies[t].base_amount * liq_index(m, t)))
        S.check("supplies[].value:" + t.name, S.eq(m.supplies[t].value, m._supplies[t].base_amount * liq_index(m, t) * price(m, t)))
    S.check("counts", len(m.supplies) == len(m._supplies) and len(m.borrows) == len(m._borrows))
    for t in m._borrows:
        S.check("get_borrow.amount:" + t.name, S.eq(m.get_borrow(t).amount, m._borrows[t].base_amount * borrow_index(m, t)))
        S.check("borrows[].amount:" + t.name, S.eq(m.borrows[t].amount, m._borrows[t].base_amount * borrow_index(m, t)))
        S.check("get_max_repay_amount:" + t.name, S.eq(m.get_max_repay_amount(t), m._borrows[t].base_amount * borrow_index(m, t)))


@proof("C10", "new-bar/positions-outside-frame=>balances-scale-with-index-ratio", strength="S", shapes=SHAPES, contracts=AAVE_CONTRACTS)
def po_new_bar(S):
    w = world(S)
    m = w.market
    pos0 = dump(positions(m))
    wal0 = dump(wallet(w))
    amounts0 = {t: (supply_amount(m, t), liq_index(m, t)) for t in m._supplies}
    debts0 = {t: (debt_amount(m, t), borrow_index(m, t)) for t in m._borrows}
    pr = add_next_bar(S, w)
    m.set_market_status(AaveMarketStatus(T1, None), pr)
    S.unchanged("scaled-balances-untouched-by-new-bar", pos0, dump(positions(m)))
    S.unchanged("wallet-untouched-by-new-bar", wal0, dump(wallet(w)))
    for t in amounts0:
        a0, i0 = amounts0[t]
        S.check("supply-accrues-with-liquidity-index-ratio:" + t.name, S.eq(m.get_supply(t).amount * i0, a0 * liq_index(m, t)))
    for t in debts0:
        a0, i0 = debts0[t]
        S.check("debt-accrues-with-borrow-index-ratio:" + t.name, S.eq(m.get_borrow(t).amount * i0, a0 * borrow_index(m, t)))


@proof("C10", "supply/moves-stated-amount", strength="S", shapes=SHAPES, contracts=AAVE_CONTRACTS, covers=("accepted",))
def po_supply(S):
    w = world(S)
    m = w.market
    all0 = dump(raw_state(w))
    amount = S.dec("amount", None, None)
    flag = S.bool("collateral")
    s0, w0 = supply_amount(m, w.op), wallet_balance(w, w.op)
    others0 = dump(positions(m, (w.op,), ()))
    n0 = len(w.actions)
    try:
        m.supply(w.op, amount, flag)
    except REJECT:
        S.unchanged("rejected=>nothing-moved", all0, dump(raw_state(w)))
        return
    S.cover("accepted")
    S.check("wallet-debited-by-amount", S.eq(wallet_balance(w, w.op), w0 - amount) or (abs(w0 - amount) <= abs(w0) * Decimal("0.0000100001") and wallet_balance(w, w.op) == 0))
    S.check("position-credited-by-amount-at-current-index", S.eq(supply_amount(m, w.op), s0 + amount))
    S.check("amount-positive", amount > 0)
    S.unchanged("other-positions-untouched", others0, dump(positions(m, (w.op,), ())))
    S.check("one-action:amount,deposit_after", len(w.actions) == n0 + 1 and S.eq(w.actions[-1].amount, amount) and S.eq(w.actions[-1].deposit_after, s0 + amount))


@proof("C10", "withdraw/moves-stated-amount;full-withdrawal-disappears", strength="S", shapes=SHAPES_WITH_SUPPLY_OF_OP, contracts=AAVE_CONTRACTS,
       covers=("accepted", "full"))
def po_withdraw(S):
    w = world(S)
    m = w.market
    all0 = dump(raw_state(w))
    amount = S.dec("amount", None, None)
    full = S.bool("withdraw_all(amount=None)")
    s0, w0 = supply_amount(m, w.op), wallet_balance(w, w.op)
    idx = liq_index(m, w.op)
    others0 = dump(positions(m, (w.op,), ()))
    n0 = len(w.actions)
    try:
        if full:
            m.withdraw(w.op)
        else:
            m.withdraw(w.op, amount)
    except REJECT:
        S.unchanged("rejected=>nothing-moved", all0, dump(raw_state(w)))
        return
    S.cover("accepted")
    moved = s0 if full else amount
    s1 = supply_amount(m, w.op)
    S.check("wallet-credited-by-amount", S.eq(wallet_balance(w, w.op), w0 + moved))
    S.check("position-debited-by-amount(mod-1e-18-base-dust)", S.le(s0 - moved - DUST * idx, s1) and S.le(s1, s0 - moved))
    S.check("never-more-than-held", S.le(moved, s0) and moved > 0)
    S.check("key-present-iff-something-left", (w.op in m._supplies) == (s1 != 0))
    if full:
        S.cover("full")
        S.check("fully-withdrawn-supply-disappears", w.op not in m._supplies)
    S.unchanged("other-positions-untouched", others0, dump(positions(m, (w.op,), ())))
    S.check("one-action:amount,deposit_after", len(w.actions) == n0 + 1 and S.eq(w.actions[-1].amount, moved) and S.eq(w.actions[-1].deposit_after, s1))


@proof("C10", "borrow/moves-stated-amount", strength="S", shapes=SHAPES_WITH_SUPPLY, contracts=AAVE_CONTRACTS, covers=("accepted",))
def po_borrow(S):
    w = world(S)
    m = w.market
    all0 = dump(raw_state(w))
    amount = S.dec("amount", None, None)
    d0, w0 = debt_amount(m, w.op), wallet_balance(w, w.op)
    others0 = dump(positions(m, (), (w.op,)))
    n0 = len(w.actions)
    try:
        m.borrow(w.op, amount)
    except REJECT:
        S.unchanged("rejected=>nothing-moved", all0, dump(raw_state(w)))
        return
    S.cover("accepted")
    S.check("wallet-credited-by-amount", S.eq(wallet_balance(w, w.op), w0 + amount))
    S.check("debt-increased-by-amount-at-current-index", S.eq(debt_amount(m, w.op), d0 + amount))
    S.check("amount-positive", amount > 0)
    S.unchanged("other-positions-untouched", others0, dump(positions(m, (), (w.op,))))
    S.check("one-action:amount,debt_after", len(w.actions) == n0 + 1 and S.eq(w.actions[-1].amount, amount) and S.eq(w.actions[-1].debt_after, d0 + amount))


@proof("C10", "repay-with-cash/moves-stated-amount;full-repayment-disappears", strength="S", shapes=SHAPES_WITH_DEBT_OF_OP, contracts=AAVE_CONTRACTS,
       covers=("accepted", "full"))
def po_repay(S):
    w = world(S)
    m = w.market
    all0 = dump(raw_state(w))
    amount = S.dec("amount", None, None)
    full = S.bool("repay_all(amount=None)")
    d0, w0 = debt_amount(m, w.op), wallet_balance(w, w.op)
    bidx = borrow_index(m, w.op)
    others0 = dump(positions(m, (), (w.op,)))
    n0 = len(w.actions)
    try:
        if full:
            m.repay(w.op)
        else:
            m.repay(w.op, amount)
    except REJECT:
        S.unchanged("rejected=>nothing-moved", all0, dump(raw_state(w)))
        return
    S.cover("accepted")
    moved = d0 if full else amount
    d1 = debt_amount(m, w.op)
    S.check("wallet-debited-by-amount", S.eq(wallet_balance(w, w.op), w0 - moved) or (abs(w0 - moved) <= abs(w0) * Decimal("0.0000100001") and wallet_balance(w, w.op) == 0))
    S.check("debt-reduced-by-amount(mod-1e-18-base-dust)", S.le(d0 - moved - DUST * bidx, d1) and S.le(d1, d0 - moved + DUST * bidx))
    S.check("amount-positive", moved > 0)
    S.check("key-present-iff-something-left", (w.op in m._borrows) == (d1 != 0))
    if full:
        S.cover("full")
        S.check("fully-repaid-debt-disappears", w.op not in m._borrows)
    S.unchanged("other-positions-untouched", others0, dump(positions(m, (), (w.op,))))
    S.check("one-action:amount,debt_after", len(w.actions) == n0 + 1 and S.eq(w.actions[-1].amount, moved) and S.eq(w.actions[-1].debt_after, d1))


def _coll_shapes(shapes):
    # op = the debt token; the collateral token used for repayment is the first supplied token
    return {k: [s for s in v if s["op"] in s["borrows"] and s["supplies"]] for k, v in shapes.items()}


@proof("C10", "repay-with-collateral/moves-stated-amounts", strength="S", shapes=_coll_shapes(SHAPES), contracts=AAVE_CONTRACTS, covers=("accepted",))
def po_repay_collateral(S):
    w = world(S)
    m = w.market
    all0 = dump(raw_state(w))
    c = [t for t in m._supplies][0]
    amount = S.dec("amount", 0, None, lo_strict=True)
    d0, s0 = debt_amount(m, w.op), supply_amount(m, c)
    wal0 = dump(wallet(w))
    others0 = dump(positions(m, (c,), (w.op,)))
    Pd, Pc = price(m, w.op), price(m, c)
    try:
        m.repay(w.op, amount, True, c)
    except REJECT:
        S.unchanged("rejected=>nothing-moved", all0, dump(raw_state(w)))
        return
    S.cover("accepted")
    paid = w.actions[-1].amount
    d1, s1 = debt_amount(m, w.op), supply_amount(m, c)
    S.check("paid==requested-or-what-the-collateral-covers", S.eq(paid, amount) or (amount * Pd > s0 * Pc and S.eq(paid * Pd, s0 * Pc)))
    S.check("debt-reduced-by-paid(mod-dust)", S.le(d0 - paid - DUST * borrow_index(m, w.op), d1) and S.le(d1, d0 - paid + DUST * borrow_index(m, w.op)))
    S.check("collateral-reduced-by-paid-value-at-bar-prices(mod-dust)", S.le(s0 - DUST * liq_index(m, c), s1 + paid * Pd / Pc) and S.le(s1 + paid * Pd / Pc, s0))      # stated on sums: compared at the magnitude of the amounts (DESIGN section 7)
    S.unchanged("wallet-untouched", wal0, dump(wallet(w)))
    if c != w.op:
        S.unchanged("other-positions-untouched", others0, dump(positions(m, (c,), (w.op,))))


@proof("C10", "history/supply,bar,supply==accrued-first-supply+second", strength="S", shapes=SHAPES, contracts=AAVE_CONTRACTS, covers=("both-accepted",))
def po_history(S):
    """supply a at index i0, a new bar with index i1, supply b: the balance is (old + a) x i1/i0 + b — regardless of the bar between."""
    w = world(S)
    m = w.market
    a = S.dec("a", 0, 10 ** 12, lo_strict=True)
    b = S.dec("b", 0, 10 ** 12, lo_strict=True)
    flag = S.bool("collateral")
    s0, i0 = supply_amount(m, w.op), liq_index(m, w.op)
    try:
        m.supply(w.op, a, flag)
        pr = add_next_bar(S, w)
        m.set_market_status(AaveMarketStatus(T1, None), pr)
        m.supply(w.op, b, flag)
    except REJECT:
        return
    S.cover("both-accepted")
    i1 = liq_index(m, w.op)
    S.check("balance==(old+a)*i1/i0+b", S.eq(m.get_supply(w.op).amount * i0, (s0 + a) * i1 + b * i0))


def _same_wallet(S, w1, w2, w0):
    """wallets agree exactly, or one side was snapped to zero by Asset.sub's documented 1e-5 relative dust rule (C03)"""
    x, y = wallet_balance(w1, w1.op), wallet_balance(w2, w2.op)
    return S.eq(x, y) or ((x == 0 or y == 0) and abs(x - y) <= (w0 + abs(x - y)) * Decimal("0.0000100001"))


@proof("C10", "split-vs-merged/supply,borrow", strength="S", shapes=SHAPES_WITH_SUPPLY, contracts=AAVE_CONTRACTS, covers=("all-accepted",))
def po_split_add(S):
    """supply(a); supply(b) vs supply(a+b) and borrow(a); borrow(b) vs borrow(a+b): same final positions and wallet."""
    w1, w2 = world(S), world(S)
    w0 = wallet_balance(w1, w1.op)
    a = S.dec("a", 0, 10 ** 12, lo_strict=True)
    b = S.dec("b", 0, 10 ** 12, lo_strict=True)
    do_borrow = S.bool("op_is_borrow")
    flag = S.bool("collateral")
    try:
        if do_borrow:
            w1.market.borrow(w1.op, a)
            w1.market.borrow(w1.op, b)
            w2.market.borrow(w2.op, a + b)
        else:
            w1.market.supply(w1.op, a, flag)
            w1.market.supply(w1.op, b, flag)
            w2.market.supply(w2.op, a + b, flag)
    except REJECT:
        return
    S.cover("all-accepted")
    S.check("same-supply", S.eq(supply_amount(w1.market, w1.op), supply_amount(w2.market, w2.op)))
    S.check("same-debt", S.eq(debt_amount(w1.market, w1.op), debt_amount(w2.market, w2.op)))
    S.check("same-wallet(mod-the-1e-5-wallet-dust-snap-of-Asset.sub)", _same_wallet(S, w1, w2, w0))


@proof("C10", "split-vs-merged/withdraw,repay(within-1e-18)", strength="S", shapes={k: [s for s in v if s["op"] in s["supplies"] and s["op"] in s["borrows"]] for k, v in SHAPES.items()},
       contracts=AAVE_CONTRACTS, covers=("all-accepted",))
def po_split_sub(S):
    w1, w2 = world(S), world(S)
    w0 = wallet_balance(w1, w1.op)
    a = S.dec("a", 0, 10 ** 12, lo_strict=True)
    b = S.dec("b", 0, 10 ** 12, lo_strict=True)
    do_repay = S.bool("op_is_repay")
    s_before, d_before = supply_amount(w1.market, w1.op), debt_amount(w1.market, w1.op)
    try:
        if do_repay:
            w1.market.repay(w1.op, a)
            w1.market.repay(w1.op, b)
        else:
            w1.market.withdraw(w1.op, a)
            w1.market.withdraw(w1.op, b)
    except REJECT:
        return
    # two accepted operations in ONE bar move exactly a + b out of the position (the second is judged against the position the first left)
    if do_repay:
        S.check("two-repayments-in-a-bar:debt-reduced-by-exactly-a+b(mod-dust)", abs(d_before - debt_amount(w1.market, w1.op) - (a + b)) <= 2 * DUST * borrow_index(w1.market, w1.op))
    else:
        S.check("two-withdrawals-in-a-bar:supply-reduced-by-exactly-a+b(mod-dust)", abs(s_before - supply_amount(w1.market, w1.op) - (a + b)) <= 2 * DUST * liq_index(w1.market, w1.op))
    try:
        if do_repay:
            w2.market.repay(w2.op, a + b)
        else:
            w2.market.withdraw(w2.op, a + b)
    except REJECT:
        return
    S.cover("all-accepted")
    m1, m2 = w1.market, w2.market
    ds = supply_amount(m1, w1.op) - supply_amount(m2, w2.op)
    dd = debt_amount(m1, w1.op) - debt_amount(m2, w2.op)
    S.check("supply-differs-by<=1e-18-base", abs(ds) <= 2 * DUST * liq_index(m1, w1.op))
    S.check("debt-differs-by<=1e-18-base", abs(dd) <= 2 * DUST * borrow_index(m1, w1.op))
    S.check("same-wallet(mod-the-1e-5-wallet-dust-snap-of-Asset.sub)", _same_wallet(S, w1, w2, w0))
