"""C08 — per-bar LP fee (uniswap/core.py V3CoreLib.update_fee, uniswap/market.py set_market_status / update)."""
from decimal import Decimal
from pyvc.api import proof, native, exact, spec
from demeter.uniswap.core import V3CoreLib
from demeter.uniswap._typing import Position, PositionInfo
from demeter.broker import MarketStatus
from .worlds import uni_pool, uni_world, series, prices, T0, T1

MAXT = 887272
POOLS = {"quick": [{"d0": 6, "d1": 18}, {"d0": 18, "d1": 6}],
         "thorough": [{"d0": a, "d1": b} for a in (6, 8, 18) for b in (6, 8, 18)]}


@spec
def path_weight(last, close, lower, upper):
    """Fraction of the bar's tick path [last, close] inside the range [lower, upper); for a stationary tick,
       membership of the close in [lower, upper)."""
    a = last if last < close else close
    b = close if last < close else last
    if a == b:
        return 1 if lower <= close and close < upper else 0
    hi = b if b < upper else upper
    lo = a if a > lower else lower
    ov = hi - lo if hi > lo else 0
    return exact(ov) / (b - a)


@proof("C08", "update_fee/fee-formula", strength="U", shapes=POOLS,
       covers=["in-range-whole-bar", "out-of-range-whole-bar", "crossing", "stationary"])
def po_update_fee(S):
    """pending delta == path weight x volume x fee rate x share; 0 <= weight <= 1; never negative; nothing when
       out of range for the whole bar; no exception."""
    pool = uni_pool(S.shape["d0"], S.shape["d1"], True)
    lower = S.int("lower_tick", -MAXT, MAXT)
    upper = S.int("upper_tick", -MAXT, MAXT)
    S.assume(lower < upper)
    last = S.int("last_tick", -MAXT, MAXT)
    close = S.int("closeTick", -MAXT, MAXT)
    liq = S.int("liquidity", 0, 10 ** 30)
    cur = S.int("currentLiquidity", 1, 10 ** 40)
    in0 = S.int("inAmount0", 0, 10 ** 40)
    in1 = S.int("inAmount1", 0, 10 ** 40)
    p0 = S.dec("pending0_before", 0, None)
    p1 = S.dec("pending1_before", 0, None)
    pos = PositionInfo(lower, upper)
    position = Position(p0, p1, liq, Decimal(1), Decimal(2), Decimal(1))
    state = series({"closeTick": close, "currentLiquidity": cur, "inAmount0": in0, "inAmount1": in1})
    raised = False
    try:
        V3CoreLib.update_fee(last, pool, pos, position, state)
    except Exception:
        raised = True
    S.check("no-exception(weight<=1)", not raised)
    w = path_weight(last, close, lower, upper)
    S.check("weight-in-[0,1]", 0 <= w and w <= 1)
    share = exact(liq) / cur
    S.check("fee0==weight*volume0*share*fee_rate",
            S.eq(position.pending_amount0, p0 + w * exact(in0) / 10 ** S.shape["d0"] * share * pool.fee_rate))
    S.check("fee1==weight*volume1*share*fee_rate",
            S.eq(position.pending_amount1, p1 + w * exact(in1) / 10 ** S.shape["d1"] * share * pool.fee_rate))
    S.check("fee-never-negative", position.pending_amount0 >= p0 and position.pending_amount1 >= p1)
    S.check("liquidity-untouched", position.liquidity == liq)
    lo_t = last if last < close else close
    hi_t = close if last < close else last
    if hi_t < lower or lo_t >= upper:
        S.cover("out-of-range-whole-bar")
        S.check("out-of-range-whole-bar=>nothing", position.pending_amount0 == p0 and position.pending_amount1 == p1)
    elif lower <= lo_t and hi_t < upper:
        S.cover("in-range-whole-bar")
        S.check("in-range-whole-bar=>full-weight", w == 1)
    else:
        S.cover("crossing")
    if last == close:
        S.cover("stationary")


MARKETS = {"quick": [{"d0": 6, "d1": 18, "q0": True, "npos": 2}, {"d0": 18, "d1": 6, "q0": False, "npos": 1}],
           "thorough": [{"d0": a, "d1": b, "q0": q, "npos": n} for (a, b) in ((6, 18), (18, 6), (8, 18)) for q in (True, False) for n in (0, 1, 2, 3)]}


@native
def _sum_liq(market):
    return [p.liquidity for p in market._positions.values()]


@proof("C08", "set_market_status/new-bar", strength="S", shapes=MARKETS)
def po_status_new_bar(S):
    """On a new bar: own liquidity is added exactly once to a copy of the data row, the tick path starts at the
       previous bar's close, the input frame is not written."""
    w = uni_world(S, S.shape["d0"], S.shape["d1"], S.shape["q0"], S.shape["npos"])
    m = w.market
    prev_close = w.rows[T0]["closeTick"]
    m._market_status = MarketStatus(T0, series(dict(w.rows[T0])))
    m.last_tick = S.int("last_tick_before", -MAXT, MAXT)
    # a write operation may have run AFTER the previous bar's fee update (in after_bar / notify): the flag it set is still up when the new bar loads
    m.has_update = S.bool("a_write_happened_after_the_previous_bar's_fee_update")
    m.set_market_status(MarketStatus(T1, None), prices({"TKA": 1, "TKB": 1}))
    own = 0
    for l in _sum_liq(m):
        own = own + l
    S.check("status-liquidity==pool+own(once)", m.market_status.data.currentLiquidity == w.rows[T1]["currentLiquidity"] + own)
    S.check("path-starts-at-previous-close", m.last_tick == prev_close)
    S.check("status-is-this-bar", m.market_status.timestamp == T1 and m.market_status.data.closeTick == w.rows[T1]["closeTick"])
    S.check("input-frame-row-intact", w.data.at[T1, "currentLiquidity"] == w.rows[T1]["currentLiquidity"]
            and w.data.at[T0, "currentLiquidity"] == w.rows[T0]["currentLiquidity"])
    S.check("has_update-cleared", m.has_update == False)


@proof("C08", "set_market_status/same-bar-refresh", strength="S", shapes=MARKETS)
def po_status_same_bar(S):
    """A second refresh within the same bar (after an operation set has_update) must not move the start of the
       tick path: last_tick stays the previous bar's close; own liquidity is still counted exactly once."""
    w = uni_world(S, S.shape["d0"], S.shape["d1"], S.shape["q0"], S.shape["npos"])
    m = w.market
    own = 0
    for l in _sum_liq(m):
        own = own + l
    # state in the middle of bar T1: status of T1 already set, last_tick = close of T0
    row = dict(w.rows[T1])
    row["currentLiquidity"] = row["currentLiquidity"] + S.int("own_liquidity_at_bar_start", 0, 10 ** 30)
    m._market_status = MarketStatus(T1, series(row))
    prev_close = S.int("previous_bar_close", -MAXT, MAXT)
    m.last_tick = prev_close
    m.has_update = True
    m.set_market_status(MarketStatus(T1, None), prices({"TKA": 1, "TKB": 1}))
    S.check("path-still-starts-at-previous-close", m.last_tick == prev_close)
    S.check("status-liquidity==pool+own(once)", m.market_status.data.currentLiquidity == w.rows[T1]["currentLiquidity"] + own)
    S.check("input-frame-row-intact", w.data.at[T1, "currentLiquidity"] == w.rows[T1]["currentLiquidity"])


@proof("C08", "update/each-position-earns-by-the-formula", strength="S", shapes=MARKETS)
def po_update(S):
    """UniLpMarket.update(): every position's pending amounts grow by weight x volume x share x fee rate, where the
       share is own / status liquidity and the path is [last_tick, close]; nothing else changes."""
    w = uni_world(S, S.shape["d0"], S.shape["d1"], S.shape["q0"], S.shape["npos"])
    m = w.market
    for k in w.pos_keys:
        S.assume(k.lower_tick < k.upper_tick)
    for i in range(len(w.pos_keys)):
        for j in range(i):
            S.assume(w.pos_keys[i].lower_tick != w.pos_keys[j].lower_tick or w.pos_keys[i].upper_tick != w.pos_keys[j].upper_tick,
                     "distinct position keys")
    row = dict(w.rows[T1])
    m._market_status = MarketStatus(T1, series(row))
    last = S.int("last_tick", -MAXT, MAXT)
    m.last_tick = last
    before = [(m._positions[k].pending_amount0, m._positions[k].pending_amount1, m._positions[k].liquidity) for k in w.pos_keys]
    wallet0 = w.broker._assets[w.pool.token0].balance
    m.update()
    for i in range(len(w.pos_keys)):
        k = w.pos_keys[i]
        p = m._positions[k]
        wt = path_weight(last, row["closeTick"], k.lower_tick, k.upper_tick)
        share = exact(before[i][2]) / row["currentLiquidity"]
        S.check(f"pos{i}/fee0", S.eq(p.pending_amount0, before[i][0] + wt * exact(row["inAmount0"]) / 10 ** S.shape["d0"] * share * w.pool.fee_rate))
        S.check(f"pos{i}/fee1", S.eq(p.pending_amount1, before[i][1] + wt * exact(row["inAmount1"]) / 10 ** S.shape["d1"] * share * w.pool.fee_rate))
        S.check(f"pos{i}/liquidity-untouched", p.liquidity == before[i][2])
    S.check("wallet-untouched", w.broker._assets[w.pool.token0].balance == wallet0)
    S.check("no-position-created-or-removed", len(m._positions) == len(w.pos_keys))


@proof("C08", "set_market_status/first-bar", strength="S", shapes=MARKETS)
def po_status_first_bar(S):
    """Bar 0 is set twice by the bar loop (once before the loop, once inside it) with no previous bar: the path
       then starts at bar 0's own close (a stationary path), never at an undefined tick."""
    w = uni_world(S, S.shape["d0"], S.shape["d1"], S.shape["q0"], S.shape["npos"])
    m = w.market
    pr = prices({"TKA": 1, "TKB": 1})
    m.set_market_status(MarketStatus(T0, None), pr)      # before the loop
    m.set_market_status(MarketStatus(T0, None), pr)      # first iteration
    S.check("path-starts-at-own-close", m.last_tick == w.rows[T0]["closeTick"])
    m.has_update = True
    m.set_market_status(MarketStatus(T0, None), pr)      # refresh after an operation in bar 0
    S.check("path-start-kept-on-refresh", m.last_tick == w.rows[T0]["closeTick"])


@native
def actuator_for(w):
    """a real Actuator driving the world's broker (one uniswap market), with a price frame over the two bars"""
    import pandas as pd
    from demeter.core.actuator import Actuator
    a = Actuator()
    a._broker = w.broker
    a._token_prices = pd.DataFrame({"TKA": [Decimal(1)] * 2, "TKB": [Decimal(1)] * 2}, index=[T0, T1])
    return a


@proof("C08", "bar-loop-refresh(Actuator.__set_market_snapshot)/own-liquidity-counted-once,path-start-kept", strength="S", shapes=MARKETS)
def po_actuator_refresh(S):
    """The refresh as the bar loop performs it (Actuator.__set_market_snapshot interpreted from its source): bar 0, first refresh of bar 1,
       an operation sets has_update, second refresh of bar 1 — the status liquidity is pool + own (once) and the path still starts at bar 0's close."""
    w = uni_world(S, S.shape["d0"], S.shape["d1"], S.shape["q0"], S.shape["npos"])
    m = w.market
    a = actuator_for(w)
    a._Actuator__set_market_snapshot(T0, False)
    a._Actuator__set_market_snapshot(T1, False)
    own = 0
    for l in _sum_liq(m):
        own = own + l
    S.check("first-refresh:status-liquidity==pool+own(once)", m.market_status.data.currentLiquidity == w.rows[T1]["currentLiquidity"] + own)
    m.has_update = True
    a._Actuator__set_market_snapshot(T1, True)
    S.check("second-refresh:status-liquidity==pool+own(once)", m.market_status.data.currentLiquidity == w.rows[T1]["currentLiquidity"] + own)
    S.check("second-refresh:path-still-starts-at-bar-0's-close", m.last_tick == w.rows[T0]["closeTick"])
    S.check("input-frame-row-intact", w.data.at[T1, "currentLiquidity"] == w.rows[T1]["currentLiquidity"])
    m.has_update = False
    a._Actuator__set_market_snapshot(T1, True)
    S.check("no-operation=>no-refresh(status-object-kept)", m.market_status.data.currentLiquidity == w.rows[T1]["currentLiquidity"] + own)
