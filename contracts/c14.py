"""C14 — Squeeth vaults: 150% collateral rule at TWAP, liquidation amounts (demeter/squeeth/market.py, helper.py).

Modular structure: get_twap_price enters through its CONTRACT (a positive price per token, the same within a bar, NOT the spot
price of the bar) — so a rule that used the spot price instead of the TWAP fails; the window selection and the geometric mean
of get_twap_price / calc_twap_price themselves are checked natively (bounded stand-in: pandas time slicing, math.log/pow).
The LP collateral's token amounts come from UniLpMarket.get_position_amount by contract (two non-negative amounts: WETH, oSQTH)."""
import math
from decimal import Decimal
import z3
from pyvc.api import proof, native, exact, spec
from pyvc.sym import SV, DEC
from .common import REJECT
from .worlds import squeeth_world, SQ_LP, T0
from .aave_common import dump
from demeter.squeeth.market import SqueethMarket
from demeter.squeeth import VaultKey
from demeter.uniswap import UniLpMarket

INDEX_SCALE = Decimal(10000)


def twap_contract(interp, args, kwargs):
    """CONTRACT of SqueethMarket.get_twap_price(token): a positive price, a function of the token within the bar"""
    tok = args[1]
    p = interp.path
    key = ("twap", tok.name)
    if key not in p.symtab.setdefault(("twapvals", p.path_id), {}):
        t = z3.Real(f"twap_{tok.name}")
        p.assume(t > 0, "contract get_twap_price: positive (geometric mean of positive prices)")
        p.symtab[("twapvals", p.path_id)][key] = SV(t, DEC)
    return p.symtab[("twapvals", p.path_id)][key]


def _as_int(x):
    from pyvc.sym import lift, as_int_term, INT, BOOL
    v = lift(x)
    return as_int_term(v) if v.ty in (INT, BOOL) else z3.ToInt(v.t)


def get_amounts_contract(interp, args, kwargs):
    """CONTRACT of liquitidy_math.get_amounts(sqrt_price_x96, tickA, tickB, liquidity, d0, d1) (its own obligations are C07's):
    two non-negative amounts, a FUNCTION of (sqrt price, ticks, liquidity).  Everything built on it — get_token_amounts,
    close_position, get_position_amount, remove_liquidity, collect_fee — is interpreted from the real source."""
    from pyvc.sym import lift, as_int_term
    sq, ta, tb, liq = args[0], args[1], args[2], args[3]
    p = interp.path
    f0 = p.uf("uni_amount0", z3.IntSort(), z3.IntSort(), z3.IntSort(), z3.IntSort(), z3.RealSort())
    f1 = p.uf("uni_amount1", z3.IntSort(), z3.IntSort(), z3.IntSort(), z3.IntSort(), z3.RealSort())
    a = [_as_int(x) for x in (sq, ta, tb, liq)]
    r0, r1 = f0(*a), f1(*a)
    p.assume(z3.And(r0 >= 0, r1 >= 0, z3.Implies(a[3] == 0, z3.And(r0 == 0, r1 == 0))),
             "contract get_amounts: non-negative, zero for zero liquidity, a function of (sqrt price, ticks, liquidity) (C07)")
    return SV(r0, DEC), SV(r1, DEC)


def sqrt_of_price_contract(interp, args, kwargs):
    """CONTRACT of helper.base_unit_price_to_sqrt_price_x96(price, d0, d1, is_token0_quote): a positive integer, a function of the price (C06)"""
    from pyvc.sym import lift, as_real_term, INT
    p = interp.path
    f = p.uf("sqrt_price_x96_of", z3.RealSort(), z3.IntSort())
    r = f(as_real_term(lift(args[0])))
    p.assume(r > 0, "contract base_unit_price_to_sqrt_price_x96: positive, a function of the price (C06)")
    return SV(r, INT)


def _sq_contracts():
    from demeter.uniswap import liquitidy_math, helper
    import demeter.uniswap.core as core
    import demeter.uniswap.market as umarket
    return {SqueethMarket.get_twap_price: twap_contract, core.get_amounts: get_amounts_contract,
            umarket.base_unit_price_to_sqrt_price_x96: sqrt_of_price_contract}


SQ_CONTRACTS = _sq_contracts()
SHAPES = {"quick": [{"lp": False}, {"lp": True}], "thorough": [{"lp": False}, {"lp": True}]}


def world(S):
    return squeeth_world(S, (S.shape["lp"],))


@native
def twap_native(m, tok):
    return m.get_twap_price(tok)


@spec
def eff_collateral(w, vk, twap_eth):
    """ETH collateral + LP position (its WETH, its pending WETH fee; its oSQTH and pending oSQTH fee valued at the INDEX price
    = norm_factor x TWAP ETH price / 10000)"""
    v = w.market.vault[vk]
    if v.uni_nft_id is None:
        return v.collateral_amount
    a_weth, a_osqth = w.uni.get_position_amount(v.uni_nft_id)
    pos = w.uni._positions[v.uni_nft_id]
    nf = w.market._market_status.data["norm_factor"]
    return v.collateral_amount + a_weth + pos.pending_amount0 + (a_osqth + pos.pending_amount1) / INDEX_SCALE * nf * twap_eth


@spec
def rule_ok(w, vk, twap_eth):
    """vault without debt, or collateral >= 1.5 x debt value at TWAP and >= 0.5 ETH"""
    v = w.market.vault[vk]
    nf = w.market._market_status.data["norm_factor"]
    c = eff_collateral(w, vk, twap_eth)
    return v.osqth_short_amount == 0 or (c * 2 >= v.osqth_short_amount * nf * twap_eth / INDEX_SCALE * 3 and c >= Decimal("0.5"))


@spec
def above_water(w, vk, twap_eth):
    v = w.market.vault[vk]
    nf = w.market._market_status.data["norm_factor"]
    return v.osqth_short_amount == 0 or eff_collateral(w, vk, twap_eth) * 2 >= v.osqth_short_amount * nf * twap_eth / INDEX_SCALE * 3


@native
def vault_state(w):
    return {k.id: (v.collateral_amount, v.osqth_short_amount, v.uni_nft_id) for k, v in w.market.vault.items()}


@native
def wallets(w):
    return {t.name: a.balance for t, a in w.broker._assets.data.items()}


@proof("C14", "get_vault_status==1.5x-rule-at-TWAP,0.5-ETH-floor", strength="S", shapes=SHAPES, contracts=SQ_CONTRACTS)
def po_status(S):
    w = world(S)
    m = w.market
    vk = w.keys[0]
    E = m.get_twap_price(w.weth)
    nf = m.get_norm_factor()
    safe, dust = m.get_vault_status(vk, nf)
    S.check("safe<=>no-debt-or-collateral*2>=debt-value-at-TWAP*3", safe == above_water(w, vk, E))
    S.check("dust<=>debt-and-collateral<0.5", dust == (m.vault[vk].osqth_short_amount != 0 and eff_collateral(w, vk, E) < Decimal("0.5")))
    S.check("effective-collateral", S.eq(m._get_effective_collateral_in_eth(vk), eff_collateral(w, vk, E)))


@proof("C14", "open_deposit_mint/accepted=>vault-safe;moves-stated-amounts", strength="S", shapes=SHAPES, contracts=SQ_CONTRACTS, covers=("accepted", "rejected"))
def po_mint(S):
    w = world(S)
    m = w.market
    vk = w.keys[0]
    dep = S.dec("deposit_eth", None, None)
    mint = S.dec("mint_osqth", None, None)
    c0, s0 = m.vault[vk].collateral_amount, m.vault[vk].osqth_short_amount
    we0, wo0 = w.broker._assets[w.weth].balance, w.broker._assets[w.osqth].balance
    E = m.get_twap_price(w.weth)
    try:
        m.open_deposit_mint(dep, mint, vk)
    except REJECT:
        S.cover("rejected")
        return
    S.cover("accepted")
    S.check("vault-obeys-the-rule-afterwards", rule_ok(w, vk, E))
    S.check("short+=minted;wallet-oSQTH+=minted", S.eq(m.vault[vk].osqth_short_amount, s0 + (mint if mint > 0 else 0)) and S.eq(w.broker._assets[w.osqth].balance, wo0 + (mint if mint > 0 else 0)))
    S.check("collateral+=deposit;wallet-WETH-=deposit", S.eq(m.vault[vk].collateral_amount, c0 + (dep if dep > 0 else 0))
            and (S.eq(w.broker._assets[w.weth].balance, we0 - (dep if dep > 0 else 0)) or w.broker._assets[w.weth].balance == 0))
    S.check("vault-amounts-non-negative", m.vault[vk].collateral_amount >= 0 and m.vault[vk].osqth_short_amount >= 0)


@proof("C14", "deposit/moves-exactly-the-stated-ETH;covered-deposits-are-accepted", strength="S", shapes=SHAPES, contracts=SQ_CONTRACTS, covers=("accepted", "rejected"))
def po_deposit(S):
    w = world(S)
    m = w.market
    vk = w.keys[0]
    a = S.dec("eth", None, None)
    c0, s0 = m.vault[vk].collateral_amount, m.vault[vk].osqth_short_amount
    we0 = w.broker._assets[w.weth].balance
    try:
        m.deposit(vk, a)
    except REJECT:
        S.cover("rejected")
        S.check("a-deposit-the-wallet-covers-with-margin-is-not-rejected", not (a >= 0 and a * Decimal("1.0001") <= we0))
        return
    S.cover("accepted")
    S.check("accepted-deposit-is-not-negative", a >= 0)
    S.check("collateral+=deposit", S.eq(m.vault[vk].collateral_amount, c0 + a))
    S.check("wallet-WETH-=deposit(or-snaps-to-zero-within-the-1e-5-dust)", S.eq(w.broker._assets[w.weth].balance, we0 - a) or w.broker._assets[w.weth].balance == 0)
    S.check("debt-untouched", m.vault[vk].osqth_short_amount == s0)


@proof("C14", "burn_and_withdraw/accepted=>vault-safe;moves-stated-amounts", strength="S", shapes=SHAPES, contracts=SQ_CONTRACTS, covers=("accepted", "rejected"))
def po_burn_withdraw(S):
    w = world(S)
    m = w.market
    vk = w.keys[0]
    burn = S.dec("burn_osqth", None, None)
    wd = S.dec("withdraw_eth", None, None)
    c0, s0 = m.vault[vk].collateral_amount, m.vault[vk].osqth_short_amount
    we0, wo0 = w.broker._assets[w.weth].balance, w.broker._assets[w.osqth].balance
    E = m.get_twap_price(w.weth)
    try:
        m.burn_and_withdraw(vk, burn, wd)
    except REJECT:
        S.cover("rejected")
        return
    S.cover("accepted")
    S.check("vault-obeys-the-rule-afterwards", rule_ok(w, vk, E))
    burned = (burn if burn <= s0 else s0) if burn > 0 else 0
    taken = (wd if wd <= c0 else c0) if wd > 0 else 0
    S.check("short-=burned(clamped-to-debt);wallet-oSQTH-=burned", S.eq(m.vault[vk].osqth_short_amount, s0 - burned)
            and (S.eq(w.broker._assets[w.osqth].balance, wo0 - burned) or w.broker._assets[w.osqth].balance == 0))
    S.check("collateral-=withdrawn(clamped-to-held);wallet-WETH+=withdrawn", S.eq(m.vault[vk].collateral_amount, c0 - taken) and S.eq(w.broker._assets[w.weth].balance, we0 + taken))
    S.check("vault-amounts-non-negative", m.vault[vk].collateral_amount >= 0 and m.vault[vk].osqth_short_amount >= 0)


@proof("C14", "withdraw_uni_position/accepted=>vault-safe-without-the-LP", strength="S", shapes={"quick": [{"lp": True}], "thorough": [{"lp": True}]}, contracts=SQ_CONTRACTS,
       covers=("accepted", "rejected"))
def po_withdraw_lp(S):
    w = world(S)
    m = w.market
    vk = w.keys[0]
    E = m.get_twap_price(w.weth)
    try:
        m.withdraw_uni_position(vk, SQ_LP)
    except REJECT:
        S.cover("rejected")
        return
    S.cover("accepted")
    S.check("LP-left-the-vault-and-is-back-in-the-uniswap-market", m.vault[vk].uni_nft_id is None and w.uni._positions[SQ_LP].transferred == False)
    S.check("vault-obeys-the-rule-afterwards", rule_ok(w, vk, E))


@proof("C14", "liquidation-arithmetic/_get_liquidation_result", strength="U", contracts=SQ_CONTRACTS)
def po_liq_amounts(S):
    """half of the debt (all of it if the vault would be left with under 0.5 ETH) against collateral = debt x TWAP oSQTH x 1.1,
    capped at the vault's collateral"""
    w = squeeth_world(S, (False,))
    m = w.market
    mx = S.dec("max_osqth", 0, None)
    short = S.dec("short", 0, None, lo_strict=True)
    coll = S.dec("collateral", 0, None)
    P = m.get_twap_price(w.osqth)
    amt, pay = m._get_liquidation_result(mx, short, coll)
    half = mx if mx < short / 2 else short / 2
    pay_half = half * P * Decimal("1.1")
    full = mx if mx < short else short
    pay_full = full * P * Decimal("1.1")
    if coll > pay_half and coll - pay_half < Decimal("0.5"):
        e_amt, e_pay = full, pay_full
    else:
        e_amt, e_pay = half, pay_half
    if e_pay > coll:
        e_amt, e_pay = short, coll
    S.check("amount", S.eq(amt, e_amt))
    S.check("collateral-to-pay", S.eq(pay, e_pay))
    S.check("never-pays-more-than-the-vault-holds", S.le(pay, coll) and pay >= 0)
    S.check("never-burns-more-than-the-debt", S.le(amt, short) and amt >= 0)


@proof("C14", "update/liquidates-iff-below-1.5x", strength="S", shapes=SHAPES, contracts=SQ_CONTRACTS, covers=("safe", "liquidated"), config={"max_seconds": 900})
def po_update(S):
    w = world(S)
    m = w.market
    vk = w.keys[0]
    E = m.get_twap_price(w.weth)
    P = m.get_twap_price(w.osqth)
    v = m.vault[vk]
    c0, s0 = v.collateral_amount, v.osqth_short_amount
    st0, wal0 = dump(vault_state(w)), dump(wallets(w))
    wo0, we0 = w.broker._assets[w.osqth].balance, w.broker._assets[w.weth].balance
    ok_before = above_water(w, vk, E)
    had_lp = v.uni_nft_id is not None
    if had_lp:
        a_weth, a_osqth = w.uni.get_position_amount(SQ_LP)
        lp_weth = a_weth + w.uni._positions[SQ_LP].pending_amount0
        lp_osqth = a_osqth + w.uni._positions[SQ_LP].pending_amount1
    try:
        m.update()
    except REJECT:
        # the ported controller reverts a liquidation that would leave a dust vault ("Dust vault left"); that is the ONLY admissible revert:
        # a safe vault is never touched, and with the whole debt offered (update passes the vault's debt) "Need full liquidation" cannot occur
        S.cover("reverted")
        S.check("update-reverts-only-for-an-unsafe-vault", not ok_before)
        if not had_lp and not ok_before:
            e_amt, e_pay = m._get_liquidation_result(s0, s0, c0)
            S.check("a-revert-is-only-the-dust-vault-case(debt-left-with-under-0.5-ETH)", s0 - e_amt != 0 and c0 - e_pay < Decimal("0.5"))
        return
    if ok_before:
        S.cover("safe")
        S.unchanged("safe-vault-untouched", st0, dump(vault_state(w)))
        S.unchanged("wallet-untouched", wal0, dump(wallets(w)))
        return
    S.cover("liquidated")
    S.check("something-happened", len(w.actions) >= 1)
    S.check("vault-amounts-non-negative", v.collateral_amount >= 0 and v.osqth_short_amount >= 0)
    if had_lp:
        S.check("LP-redeemed-first", v.uni_nft_id is None)
        burned_lp = lp_osqth if lp_osqth <= s0 else s0
        s1 = s0 - burned_lp
        bounty = (lp_osqth * P + lp_weth) * Decimal("0.02")
        if bounty > c0 + lp_weth:          # paid out of the vault's collateral: capped by it (vault amounts never go negative)
            bounty = c0 + lp_weth
        ra = [a for a in w.actions if type(a).__name__ == "ReduceDebtAction"]
        S.check("reduce-debt:withdrawn-ETH==LP-WETH", len(ra) == 1 and S.eq(ra[0].withdrawn_eth_amount, lp_weth))
        S.check("reduce-debt:oSQTH==LP-oSQTH;burned==min(it,debt)", S.eq(ra[0].withdrawn_osqth_amount, lp_osqth) and S.eq(ra[0].burn_amount, burned_lp))
        S.check("reduce-debt:bounty==2%-of-redeemed-value", S.eq(ra[0].bounty, bounty))
        S.check("excess-oSQTH-returned-to-wallet", S.eq(w.broker._assets[w.osqth].balance, wo0 + (lp_osqth - burned_lp)))
        # after the redemption the vault holds its ETH plus the LP's ETH less the 2 % bounty, against the remaining debt: rescued (at least
        # 1.5x) => the bounty stays paid and nothing is liquidated; still below 1.5x => the liquidation follows
        coll_red = c0 + lp_weth - bounty
        nf = m._market_status.data["norm_factor"]
        rescued = s1 == 0 or coll_red * 2 >= s1 * nf * E / INDEX_SCALE * 3
        n_liq = len([a for a in w.actions if type(a).__name__ == "LiquidationAction"])
        if rescued:
            S.cover("rescued-by-the-LP")
            S.check("rescued-by-the-LP-redemption=>no-liquidation", n_liq == 0)
            S.check("rescued-by-the-LP-redemption=>the-2%-bounty-stays-paid", S.eq(v.collateral_amount, coll_red) and S.eq(v.osqth_short_amount, s1))
        else:
            S.check("still-below-1.5x-after-the-redemption(net-of-the-bounty)=>liquidated", n_liq == 1)
    else:
        s1 = s0
    la = [a for a in w.actions if type(a).__name__ == "LiquidationAction"]
    if len(la) == 1:
        S.check("liquidated-amount<=remaining-debt;collateral-paid<=held", S.le(la[0].liquidate_amount, s1) and la[0].collateral_to_pay >= 0)
        S.check("short-after==remaining-debt-liquidated", S.eq(v.osqth_short_amount, s1 - la[0].liquidate_amount))
    if not had_lp:
        S.check("without-LP:exactly-one-liquidation", len(la) == 1)
        e_amt, e_pay = m._get_liquidation_result(s0, s0, c0)
        S.check("without-LP:amounts==liquidation-arithmetic", S.eq(la[0].liquidate_amount, e_amt) and S.eq(la[0].collateral_to_pay, e_pay))
        S.check("without-LP:collateral-after", S.eq(v.collateral_amount, c0 - e_pay))
    S.check("wallet-WETH-untouched", w.broker._assets[w.weth].balance == we0)


@proof("C14", "get_twap_price==geometric-mean-over-the-trailing-seven-minute-window(bounded)", strength="B", config={"bounded_samples": {"quick": 300, "thorough": 4000}})
def po_twap(S):
    """bounded stand-in (pandas time slicing and math.log/pow are outside the interpreter): the real get_twap_price on a random
    frame equals the geometric mean of exactly the rows whose TIMESTAMP lies in [now - 6 min, now] (clipped to the first row): seven
    bars on a one-minute grid, fewer on a coarser or gappy grid (bars every 2, 5, 60 minutes, or minute bars with holes)"""
    import pandas as pd
    from demeter import MarketStatus
    n = S.int("rows", 1, 14)
    k = S.int("now_index", 0, 13)
    S.assume(k < n)
    step = [1, 1, 2, 5, 60, 0][S.int("grid", 0, 5)]
    if step:
        t = pd.date_range(T0, periods=n, freq=f"{step}min")
    else:       # minute bars with holes: gaps of 1..4 minutes
        gaps = [1 + (S.int(f"gap{i}", 0, 3)) for i in range(14)][:n]
        t = pd.DatetimeIndex([T0 + pd.Timedelta(minutes=sum(gaps[:i])) for i in range(n)])
    eth = [S.dec(f"eth{i}", 500, 5000) for i in range(14)][:n]
    osq = [S.dec(f"osq{i}", Decimal("0.01"), 1) for i in range(14)][:n]
    m = SqueethMarket(w_info(), None)
    m.data = pd.DataFrame({"norm_factor": [Decimal("0.5")] * n, "WETH": eth, "OSQTH": osq}, index=t)
    m.set_market_status(MarketStatus(t[k]), None)
    from demeter.squeeth._typing import WETH, oSQTH
    for tok, col in ((WETH, eth), (oSQTH, osq)):
        window = [col[i] for i in range(n) if t[k] - pd.Timedelta(minutes=6) <= t[i] and t[i] <= t[k]]
        prod = Decimal(1)
        for x in window:
            prod = prod * x
        got = Decimal(m.get_twap_price(tok))
        # got ** len == product of the window, up to float rounding of log/pow
        S.check(f"{tok.name}:twap^n==product-of-window", abs(got ** len(window) / prod - 1) < Decimal("1e-9"))
        S.check(f"{tok.name}:between-min-and-max-of-window", min(window) * (1 - Decimal("1e-12")) <= got <= max(window) * (1 + Decimal("1e-12")))


@native
def w_info():
    from demeter import MarketInfo, MarketTypeEnum
    return MarketInfo("sqth", MarketTypeEnum.squeeth)
