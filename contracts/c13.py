"""C13 — Aave derived views always equal a from-scratch recomputation (demeter/aave/market.py, _typing.DictCache).

Class invariant COHERENT: every cache is empty or holds exactly what recomputation from the current positions, indices and
prices gives.  For each writer the entry state has all caches filled from the entry positions (the worst case) or all empty;
after the writer — at its normal AND its exceptional exit — every view read through the public properties must equal the
same view read after all caches were emptied."""
from pyvc.api import proof, native
from .common import REJECT
from .aave_common import *   # noqa
from .aave_common import AAVE_CONTRACTS, SHAPES, SHAPES_WITH_SUPPLY_OF_OP, SHAPES_WITH_DEBT_OF_OP, SHAPES_WITH_DEBT, world, read_views, reset_caches, dump, add_next_bar
from demeter.aave._typing import AaveMarketStatus
from .worlds import T1


def _with_prefill(shapes):
    return {k: [dict(s, prefill=p) for s in v for p in (True, False)] for k, v in shapes.items()}


def _enter(S):
    w = world(S)
    if S.shape["prefill"]:
        read_views(w.market)        # fills every cache from the entry state
    return w


def _coherent(S, m):
    seen = dump(read_views(m))
    reset_caches(m)
    fresh = dump(read_views(m))
    S.unchanged("view==recomputation", fresh, seen)


@proof("C13", "supply/views-coherent-at-every-exit", strength="S", shapes=_with_prefill(SHAPES), contracts=AAVE_CONTRACTS)
def po_supply(S):
    w = _enter(S)
    try:
        w.market.supply(w.op, S.dec("amount", None, None), S.bool("collateral"))
        S.cover("accepted")
    except REJECT:
        S.cover("rejected")
    _coherent(S, w.market)


@proof("C13", "withdraw/views-coherent-at-every-exit", strength="S", shapes=_with_prefill(SHAPES_WITH_SUPPLY_OF_OP), contracts=AAVE_CONTRACTS)
def po_withdraw(S):
    w = _enter(S)
    try:
        w.market.withdraw(w.op, S.dec("amount", None, None))
        S.cover("accepted")
    except REJECT:
        S.cover("rejected")
    _coherent(S, w.market)


@proof("C13", "borrow/views-coherent-at-every-exit", strength="S", shapes=_with_prefill(SHAPES), contracts=AAVE_CONTRACTS)
def po_borrow(S):
    w = _enter(S)
    try:
        w.market.borrow(w.op, S.dec("amount", None, None))
        S.cover("accepted")
    except REJECT:
        S.cover("rejected")
    _coherent(S, w.market)


@proof("C13", "repay/views-coherent-at-every-exit", strength="S", shapes=_with_prefill(SHAPES_WITH_DEBT_OF_OP), contracts=AAVE_CONTRACTS)
def po_repay(S):
    w = _enter(S)
    try:
        w.market.repay(w.op, S.dec("amount", None, None))
        S.cover("accepted")
    except REJECT:
        S.cover("rejected")
    _coherent(S, w.market)


@proof("C13", "repay-with-collateral/views-coherent-at-every-exit", strength="S", shapes=_with_prefill(SHAPES_WITH_DEBT_OF_OP), contracts=AAVE_CONTRACTS)
def po_repay_collateral(S):
    w = _enter(S)
    other = [t for t in w.tokens.values()][0]
    try:
        w.market.repay(w.op, S.dec("amount", None, None), True, other)
        S.cover("accepted")
    except REJECT:
        S.cover("rejected")
    _coherent(S, w.market)


@proof("C13", "change_collateral/views-coherent-at-every-exit", strength="S", shapes=_with_prefill(SHAPES_WITH_SUPPLY_OF_OP), contracts=AAVE_CONTRACTS)
def po_change(S):
    w = _enter(S)
    try:
        w.market.change_collateral(w.op, S.bool("flag"))
        S.cover("accepted")
    except REJECT:
        S.cover("rejected")
    _coherent(S, w.market)


@proof("C13", "new-bar/views-coherent", strength="S", shapes=_with_prefill(SHAPES_WITH_DEBT), contracts=AAVE_CONTRACTS)
def po_new_bar(S):
    w = _enter(S)
    pr = add_next_bar(S, w)
    w.market.set_market_status(AaveMarketStatus(T1, None), pr)
    _coherent(S, w.market)


@proof("C13", "liquidation-step(_do_liquidate)/views-coherent-at-every-exit", strength="S", shapes=_with_prefill(SHAPES_WITH_DEBT), contracts=AAVE_CONTRACTS)
def po_liquidate_step(S):
    """_liquidate changes state only through _do_liquidate (and reads views in between), so coherence after every step,
    accepted or rejected, carries over to update()."""
    w = _enter(S)
    m = w.market
    debt_tok = [t for t in m._borrows][0]
    coll_tok = w.op if w.op in m._supplies else [t for t in m._supplies][0]
    n0 = len(w.actions)
    try:
        m._do_liquidate(coll_tok, debt_tok, S.dec("debt_value_to_cover", 0, None, lo_strict=True))
    except AssertionError:
        S.cover("rejected")
    if len(w.actions) > n0:
        S.cover("liquidated")
    _coherent(S, m)


@proof("C13", "two-markets-in-one-process/each-market's-figures-come-from-its-OWN-positions-and-risk-table", strength="S",
       shapes={k: [s for s in v if s["supplies"] and s["borrows"]][:1] for k, v in SHAPES.items()}, contracts=AAVE_CONTRACTS)
def po_two_markets(S):
    """'recomputed from scratch from the current positions, indices and prices' — of THAT market: a second market with its own risk table
    (another chain, another parameter file) evaluated after the first one reports its own health factor, liquidation threshold, max LTV
    and totals.  The recomputation here is written over the raw positions (aave_common spec functions), not through the library."""
    from .aave_common import weighted_collateral, total_debt_value, total_collateral_value, total_supply_value
    from pyvc.api import exact
    w1 = world(S, "m1_")
    w2 = world(S, "m2_")
    read_views(w1.market)                 # the first market is evaluated first (whatever it may leave behind in the process)
    for tag, w in (("first", w1), ("second", w2)):
        m = w.market
        debt, coll = total_debt_value(m), total_collateral_value(m)
        if debt != 0:
            S.check(f"{tag}:health-factor==own-collateral-x-own-LT/own-debt", S.eq(m.health_factor, weighted_collateral(m, "LT") / exact(debt)))
        if coll != 0:
            S.check(f"{tag}:liquidation-threshold==own-weighted-mean", S.eq(m.liquidation_threshold, weighted_collateral(m, "LT") / exact(coll)))
            S.check(f"{tag}:max-ltv==own-weighted-mean", S.eq(m.max_ltv, weighted_collateral(m, "LTV") / exact(coll)))
        S.check(f"{tag}:totals", S.eq(m.total_supply_value, total_supply_value(m)) and S.eq(m.total_collateral_value, coll) and S.eq(m.total_borrows_value, debt))
