"""C12 — Aave liquidation (demeter/aave/market.py::_liquidate, _do_liquidate, update).

Postconditions are taken from the statement and written over the raw positions (aave_common): close factor, seized value
= repaid value x (1 + the COLLATERAL's bonus), removed at the COLLATERAL's own liquidity index, wallet untouched, net value
drops by exactly bonus x repaid value, action record == state change; the loop liquidates iff HF < 1, visits every debt at
most once, lets no exception escape and stops with HF >= 1, no collateral, or every debt visited.

Modular structure: `_do_liquidate` is verified against STEP_POST (po_step); the loop `_liquidate` is verified twice — with the
real `_do_liquidate` body inlined for single-debt portfolios, and against `_do_liquidate`'s CONTRACT (do_liquidate_contract:
requires / havoc / assume STEP_POST / frame) for portfolios with several debts and collaterals."""
from decimal import Decimal
from pyvc.api import proof, native, exact, spec, EffectContract
from .aave_common import *   # noqa
from .aave_common import AAVE_CONTRACTS, world, raw_state, dump, DUST, reset_caches
from .common import REJECT
from demeter.aave import AaveV3Market
from demeter.aave._typing import LiquidationAction


def _sh(tokens, supplies, borrows, coll, debt):
    return {"tokens": list(tokens), "supplies": list(supplies), "borrows": list(borrows), "op": coll, "coll": coll, "debt": debt}


STEP_SHAPES = {
    "quick": [_sh("AB", "A", "B", "A", "B"), _sh("AB", "AB", "AB", "A", "B"), _sh("AB", "AB", "AB", "A", "A")],
    "thorough": [_sh("AB", "A", "B", "A", "B"), _sh("AB", "AB", "AB", "A", "B"), _sh("AB", "AB", "AB", "A", "A"), _sh("AB", "AB", "AB", "B", "A"),
                 _sh("AB", "A", "A", "A", "A"), _sh("ABC", "AB", "BC", "A", "C"), _sh("ABC", "ABC", "ABC", "B", "C"), _sh("ABC", "AC", "AB", "C", "A")],
}
LOOP_SHAPES_INLINE = {
    "quick": [_sh("AB", "A", "B", "A", "B"), _sh("AB", "AB", "B", "A", "B")],
    "thorough": [_sh("AB", "A", "B", "A", "B"), _sh("AB", "AB", "B", "A", "B"), _sh("AB", "A", "A", "A", "A"), _sh("ABC", "ABC", "B", "A", "B")],
}
# several debts: two loop iterations multiply the path count (selection order x key removal x close factor); the two-collateral,
# two-debt portfolio needs ~3600 paths (about 20 minutes on 16 cores) and is explored in the thorough tier only
LOOP_SHAPES_MODULAR = {
    "quick": [_sh("AB", "A", "AB", "A", "B")],
    "thorough": [_sh("AB", "A", "B", "A", "B"), _sh("AB", "A", "AB", "A", "B"), _sh("AB", "AB", "AB", "A", "B")],
}


@spec
def hf_above_095(m):
    return weighted_collateral(m, "LT") > total_debt_value(m) * Decimal("0.95")


@spec
def step_post(R, C, D, cf, cover_value, Pc, Pd, bonus, idx_c, bidx_d, repaid, seized, C1, D1):
    """Postcondition of one accepted liquidation step, from the statement.  C, D: collateral / debt token amounts before;
    C1, D1 after; cf the close factor chosen from the health factor before the step.  R.le / R.eq: <= and == on magnitudes
    (exact over the reals; natively with the 1e-30 relative resolution of 35-digit Decimal arithmetic, DESIGN section 7)."""
    return {
        "close-factor:0<=repaid<=cf*debt": repaid >= 0 and R.le(repaid, cf * D),
        "repaid<=requested": R.le(repaid, cover_value),
        "seized-value==repaid-value*(1+collateral-bonus)": R.eq(seized * Pc, repaid * Pd * (1 + bonus)),
        "seized<=collateral-held": seized >= 0 and R.le(seized, C),
        "full-step-unless-collateral-exhausted": R.eq(seized, C) or R.eq(repaid, cf * D) or R.eq(repaid, cover_value),
        # removed at the collateral token's own index / the debt token's borrow index (mod the 1e-18 base-amount dust)
        "collateral-reduced-by-seized-at-its-own-index": R.le(C - seized - DUST * idx_c, C1) and R.le(C1, C - seized),
        "debt-reduced-by-repaid": R.le(D - repaid - DUST * bidx_d, D1) and R.le(D1, D - repaid),
        "amounts-stay-non-negative": C1 >= 0 and D1 >= 0,
    }


@native
def last_action(w):
    return w.actions[-1]


@native
def positions(m, skip_s=(), skip_b=()):
    return {"supplies": {t.name: (i.base_amount, i.collateral, i.begin_supply_index) for t, i in m._supplies.items() if t not in skip_s},
            "borrows": {t.name: (i.base_amount, i.begin_borrow_index) for t, i in m._borrows.items() if t not in skip_b}}


@native
def wallet(w):
    return {t.name: a.balance for t, a in w.broker._assets.data.items()}


@proof("C12", "_do_liquidate/step", strength="S", shapes=STEP_SHAPES, contracts=AAVE_CONTRACTS, covers=("accepted", "rejected"),
       config={"max_seconds": 600})
def po_step(S):
    """One liquidation step from an arbitrary portfolio (health factor anywhere — the close factor depends on it)."""
    w = world(S)
    m = w.market
    c = w.tokens["TK" + S.shape["coll"]]
    d = w.tokens["TK" + S.shape["debt"]]
    cover_value = S.dec("debt_value_to_cover", 0, None, lo_strict=True)
    D = debt_amount(m, d)
    C = supply_amount(m, c)
    nv0 = net_value(m)
    cf = Decimal("0.5") if hf_above_095(m) else Decimal(1)
    others0 = dump(positions(m, (c,), (d,)))
    wal0 = dump(wallet(w))
    all0 = dump(raw_state(w))
    n0 = len(w.actions)
    ok = True
    try:
        m._do_liquidate(c, d, cover_value)
    except AssertionError:
        ok = False
    if not ok:
        S.cover("rejected")
        S.unchanged("rejected-step-changes-nothing", all0, dump(raw_state(w)))
        S.check("only-rejected-when-collateral-not-liquidatable", not m._supplies[c].collateral or LT(m, c) == 0)
        return
    S.cover("accepted")
    S.check("exactly-one-action-recorded", len(w.actions) == n0 + 1)
    a = last_action(w)
    repaid = a.variable_delt_liquidated
    seized = a.collateral_used
    Pc, Pd, bonus = price(m, c), price(m, d), BONUS(m, c)
    C1, D1 = supply_amount(m, c), debt_amount(m, d)
    S.check_all("", step_post(S, C, D, cf, cover_value, Pc, Pd, bonus, liq_index(m, c), borrow_index(m, d), repaid, seized, C1, D1))
    S.check("net-value-drops-by-bonus-x-repaid-value",
            S.le(nv0 - bonus * repaid * Pd - DUST * liq_index(m, c) * Pc, net_value(m)) and S.le(net_value(m), nv0 - bonus * repaid * Pd + DUST * borrow_index(m, d) * Pd))
    S.unchanged("other-positions-untouched", others0, dump(positions(m, (c,), (d,))))
    S.unchanged("wallet-untouched", wal0, dump(wallet(w)))
    S.check("collateral-key-present-iff-amount-left", (c in m._supplies) == (C1 != 0))
    S.check("debt-key-present-iff-amount-left", (d in m._borrows) == (D1 != 0))
    S.check("action:tokens", a.collateral_token == c.name and a.debt_token == d.name)
    S.check("action:collateral_after==state", S.eq(a.collateral_after, C1))
    S.check("action:variable_debt_after==state", S.eq(a.variable_debt_after, D1))


# ------------------------------------------------------------------------------------------------ contract of _do_liquidate
def do_liquidate_body(hv, m, c, d, cover_value):
    """CONTRACT of AaveV3Market._do_liquidate(collateral_token, delt_token, delt_value_to_cover), discharged by po_step:
         requires  collateral_token is a supply key, delt_token is a debt key, delt_value_to_cover > 0
         raises    AssertionError, nothing modified, iff the collateral is not liquidatable (flag off or LT == 0)
         modifies  _supplies[c].base_amount (key removed iff nothing left), _borrows[d].base_amount (likewise), the five
                   caches (reset), the action log (one LiquidationAction appended) — nothing else, the wallet in particular
         ensures   step_post"""
    hv.require("collateral-token-is-a-supply-key", c in m._supplies)
    hv.require("debt-token-is-a-debt-key", d in m._borrows)
    hv.require("value-to-cover>0", cover_value > 0)
    if not (m._supplies[c].collateral and LT(m, c) != 0):
        raise AssertionError("collateral cannot be liquidated")
    C, D = supply_amount(m, c), debt_amount(m, d)
    cf = Decimal("0.5") if hf_above_095(m) else Decimal(1)
    repaid, seized, C1, D1 = hv.dec("repaid"), hv.dec("seized"), hv.dec("C1"), hv.dec("D1")
    hv.assume_all(step_post(hv, C, D, cf, cover_value, price(m, c), price(m, d), BONUS(m, c), liq_index(m, c), borrow_index(m, d), repaid, seized, C1, D1))
    if C1 == 0:
        del m._supplies[c]
    else:
        m._supplies[c].base_amount = C1 / liq_index(m, c)
    if D1 == 0:
        del m._borrows[d]
    else:
        m._borrows[d].base_amount = D1 / borrow_index(m, d)
    reset_caches(m)
    m._record_action(LiquidationAction(market=m.market_info, collateral_token=c.name, debt_token=d.name, delt_to_cover=cover_value,
                                       collateral_used=seized, variable_delt_liquidated=repaid, health_factor_before=hv.dec("hf0"),
                                       health_factor_after=hv.dec("hf1"), collateral_after=C1, variable_debt_after=D1))


DO_LIQUIDATE_CONTRACT = dict(AAVE_CONTRACTS)
DO_LIQUIDATE_CONTRACT[AaveV3Market._do_liquidate] = EffectContract("_do_liquidate", do_liquidate_body)


def _update_obligations(S):
    """Market.update() at the end of a bar: nothing happens with HF >= 1; with 0 < HF < 1 at least one step is executed, every debt
    token is visited at most once, no exception escapes, the wallet is untouched and the process stops with HF >= 1, no collateral
    left, or every debt visited."""
    w = world(S)
    m = w.market
    m.is_open = True
    all0 = dump(raw_state(w))
    wal0 = dump(wallet(w))
    healthy = hf_at_least_one(m)
    wlt0 = weighted_collateral(m, "LT")
    debts0 = [t for t in m._borrows]
    m.update()
    acts = [a for a in w.actions]
    if healthy:
        S.cover("healthy")
        S.unchanged("health-factor>=1=>nothing-changes", all0, dump(raw_state(w)))
    else:
        if len(acts) > 0:
            S.cover("liquidated")
        S.check("health-factor<1=>liquidated(unless-no-collateral)", len(acts) >= 1 or wlt0 == 0)
    names = [a.debt_token for a in acts]
    S.check("every-debt-visited-at-most-once", len(set(names)) == len(names))
    S.unchanged("wallet-untouched", wal0, dump(wallet(w)))
    S.check("ends:health-factor>=1-or-no-collateral-or-every-debt-visited",
            hf_at_least_one(m) or weighted_collateral(m, "LT") == 0 or all((t.name in names) for t in debts0))


@proof("C12", "update/liquidates-iff-health-factor<1(real-step-inlined)", strength="S", shapes=LOOP_SHAPES_INLINE, contracts=AAVE_CONTRACTS,
       covers=("healthy", "liquidated"), config={"max_seconds": 600, "max_paths": 20000})
def po_update_inline(S):
    _update_obligations(S)


@proof("C12", "update/liquidates-iff-health-factor<1(step-by-contract)", strength="S", shapes=LOOP_SHAPES_MODULAR, contracts=DO_LIQUIDATE_CONTRACT,
       covers=("healthy", "liquidated"), config={"max_seconds": 600, "max_paths": 20000, "native_samples": {"quick": 40, "thorough": 300}})
def po_update_modular(S):
    _update_obligations(S)


@proof("C12", "update/second-bar:liquidated-iff-health-factor<1-at-THIS-bar's-indices(prices-unchanged)", strength="S",
       shapes={"quick": LOOP_SHAPES_MODULAR["thorough"][:1], "thorough": LOOP_SHAPES_MODULAR["thorough"][:2]}, contracts=DO_LIQUIDATE_CONTRACT,
       covers=("liquidated",), config={"max_seconds": 900, "max_paths": 20000, "native_samples": {"quick": 20, "thorough": 100}})
def po_update_next_bar(S):
    """'At the end of a bar a position is liquidated iff its health factor is below 1' holds for EVERY bar: bar 0 is healthy (update finds
    nothing to do); in bar 1 only the liquidity / borrow indices have moved (the price row is the same object with the same values); if
    that pushes the health factor below 1, update() must liquidate."""
    from demeter.aave._typing import AaveMarketStatus
    from .aave_common import add_next_bar
    from .worlds import T1
    w = world(S)
    m = w.market
    m.is_open = True
    S.assume(hf_at_least_one(m))
    m.update()
    S.check("bar-0:healthy=>no-liquidation", len(w.actions) == 0)
    add_next_bar(S, w, "next_")
    m.set_market_status(AaveMarketStatus(T1, None), m._price_status)
    healthy = hf_at_least_one(m)
    wlt = weighted_collateral(m, "LT")
    m.update()
    if not healthy:
        if len(w.actions) > 0:
            S.cover("liquidated")
        S.check("bar-1:health-factor<1=>liquidated(unless-no-collateral)", len(w.actions) >= 1 or wlt == 0)
    else:
        S.check("bar-1:health-factor>=1=>no-liquidation", len(w.actions) == 0)


@proof("C12", "update/after-a-same-bar-operation:liquidated-iff-health-factor<1-of-the-positions-as-they-are-then", strength="S",
       shapes={"quick": [dict(LOOP_SHAPES_MODULAR["thorough"][0], ops="supply")],
               "thorough": [dict(LOOP_SHAPES_MODULAR["thorough"][0], ops="supply"), dict(LOOP_SHAPES_MODULAR["thorough"][0], ops="repay"), dict(LOOP_SHAPES_MODULAR["thorough"][1], ops="supply")]},
       contracts=DO_LIQUIDATE_CONTRACT, config={"max_seconds": 900, "max_paths": 20000, "native_samples": {"quick": 20, "thorough": 100}})
def po_update_after_operation(S):
    """The end-of-bar check looks at the positions as they are at the end of the bar: the strategy reads the (memoised) views, then tops up
    its collateral or repays part of a debt in the same bar; update() liquidates iff the health factor of the positions AFTER that
    operation is below 1 (a top-up that lifts it to >= 1 prevents the liquidation, one that does not, does not)."""
    from .aave_common import read_views
    w = world(S)
    m = w.market
    m.is_open = True
    read_views(m)
    c = [t for t in m._supplies][0]
    try:
        if S.shape["ops"] == "supply":
            m.supply(c, S.dec("top_up", 0, 10 ** 12, lo_strict=True), m._supplies[c].collateral)
        else:
            m.repay([t for t in m._borrows][0], S.dec("repayment", 0, 10 ** 12, lo_strict=True))
    except REJECT:
        return
    n0 = len(w.actions)
    healthy = hf_at_least_one(m)
    wlt = weighted_collateral(m, "LT")
    m.update()
    liquidated = len(w.actions) > n0
    if healthy:
        S.cover("healthy")
        S.check("health-factor>=1-after-the-operation=>no-liquidation", not liquidated)
    else:
        S.check("health-factor<1-after-the-operation=>liquidated(unless-no-collateral)", liquidated or wlt == 0)
