"""C19 — strategies run by the backtest manager do not influence one another (demeter/core/backtest.py).

What contracts can decide is the mechanism the property is anchored in: `_start` must not write into anything that is shared
between runs — the configuration's market objects, the configured assets, the input data and price frames.  `_start` is
interpreted from its real source with `Actuator.run` replaced by its FRAME CONTRACT: run() may modify everything reachable
from the actuator's own broker (every market registered there, every asset) and nothing else; the contract performs such a
modification on every reachable market, so handing a shared market object to the actuator shows up as a changed snapshot of
the shared configuration.  The strategy is arbitrary (it acts only through the broker it is given).
The manager-level statement (each strategy's result equals running it alone, in either order) is evaluated natively on the
fixture strategies — a bounded stand-in.  The forked / multi-worker paths are not decided by this technique."""
from decimal import Decimal
from pyvc.api import proof, native, exact, spec, EffectContract
from .aave_common import dump
from demeter.core import backtest
from demeter.core.actuator import Actuator


@native
def fixture(kind):
    from fixtures import backtest_fixture as fx
    return fx.make_kind(kind)


@native
def shared_state(config, data):
    """everything two runs share: the configured markets (all fields but loggers), the configured assets, the input frames"""
    from pyvc.api import dump_state
    return {"markets": [dump_state(m, skip=("logger", "_data")) for m in config.markets],
            "market_data_ids": [id(m._data) for m in config.markets],
            "assets": {t.name: str(a) for t, a in config.assets.items()},
            "frames": {str(k): (id(df), df.shape, int(pd_hash(df))) for k, df in data.data.items()},
            "prices": (id(data.prices[0]), int(pd_hash(data.prices[0])))}


@native
def pd_hash(df):
    import pandas as pd
    return int(pd.util.hash_pandas_object(df.astype(str), index=True).sum()) & 0xFFFFFFFF


@native
def touch_everything_reachable(actuator):
    """what Actuator.run is allowed to do, done: write into every market and asset reachable from the actuator's broker"""
    for m in actuator.broker.markets.values():
        m.has_update = True
        m._touched_by_run = True
        for name, v in list(vars(m).items()):
            if isinstance(v, dict):
                v["__written_by_run__"] = 1
    for a in actuator.broker.assets.values():
        a.balance = a.balance + 1


def run_frame_contract(hv, actuator, print_result=False):
    """CONTRACT (frame) of Actuator.run: modifies reach(actuator.broker) — markets, their position containers, assets — and the
    actuator's own logs; reads the input frames; writes nothing else"""
    touch_everything_reachable(actuator)


RUN_CONTRACT = {Actuator.run: EffectContract("Actuator.run", run_frame_contract)}
KINDS = {"quick": [{"kind": "uni"}, {"kind": "uni+squeeth"}, {"kind": "uni", "entry": "global"}, {"kind": "uni", "entry": "param"}],
         "thorough": [{"kind": k, "entry": e} for k in ("uni", "uni+squeeth", "uni+uni") for e in ("_start", "global", "param")]}


def _enter(S, config, data, strategy, bk):
    """the three entry points a worker can be started through: _start itself, _start_with_param_data, and _start_with_global_data
    (forked workers: the data is the module global, and ONE unpickled configuration object can serve several tasks of a chunk)"""
    e = S.shape.get("entry", "_start")
    if e == "global":
        backtest.global_data = data
        backtest._start_with_global_data(config, strategy, bk)
    elif e == "param":
        backtest._start_with_param_data(config, data, strategy, bk)
    else:
        backtest._start(config, data, strategy, bk)



@proof("C19", "_start/writes-nothing-shared-between-runs", strength="S", shapes=KINDS, contracts=RUN_CONTRACT, config={"native_samples": {"quick": 1, "thorough": 2}})
def po_start(S):
    from fixtures import backtest_fixture as fx
    config, data, bk = fixture(S.shape["kind"])
    s0 = dump(shared_state(config, data))
    _enter(S, config, data, fx.AddAtFirstBar(1000) if S.mode == "native" and S.shape["kind"] == "uni" else fx.Idle(), bk)
    S.unchanged("first-run-leaves-configuration-and-data-untouched", s0, dump(shared_state(config, data)))
    _enter(S, config, data, fx.Idle(), bk)
    S.unchanged("second-run-leaves-configuration-and-data-untouched", s0, dump(shared_state(config, data)))


@proof("C19", "manager(sequential)/each-strategy==running-it-alone,any-order(bounded)", strength="B", config={"bounded_samples": {"quick": 4, "thorough": 24}})
def po_manager(S):
    """bounded stand-in: BacktestManager.run (in-process path) over fixture strategies; every strategy's final net value,
    balances and position count equal those of running it alone; both orders"""
    from fixtures import backtest_fixture as fx
    v1 = S.int("value_1", 100, 1500)
    v2 = S.int("value_2", 100, 1500)
    order = S.bool("reverse_order")
    alone = {}
    for name, mk in (("a", lambda: fx.AddAtFirstBar(v1)), ("b", lambda: fx.AddAtFirstBar(v2)), ("idle", lambda: fx.Idle())):
        alone[name] = fx.run_manager([mk()])[0]
    mks = [("a", lambda: fx.AddAtFirstBar(v1)), ("idle", lambda: fx.Idle()), ("b", lambda: fx.AddAtFirstBar(v2))]
    if order:
        mks = list(reversed(mks))
    together = fx.run_manager([mk() for _, mk in mks])
    for (name, _), res in zip(mks, together):
        S.check(f"strategy-{name}:result==alone", res == alone[name])


@proof("C19", "manager(sequential,option-market)/each-strategy==running-it-alone;shared-order-book-intact(bounded)", strength="B",
       config={"bounded_samples": {"quick": 8, "thorough": 40}})
def po_manager_options(S):
    """bounded stand-in: strategies that trade the SAME instrument of one shared hourly order-book frame through BacktestManager
    (in-process path): each gets the fills, cash, positions and net value it gets alone, in either order, and the shared frame's
    order-book cells are what they were"""
    from fixtures import backtest_fixture as fx
    a1 = S.int("contracts_1", 1, 60)
    a2 = S.int("contracts_2", 1, 60)
    order = S.bool("reverse_order")
    capped = S.bool("first_strategy_buys_with_a_price_cap")       # the cap path filters the book before filling it
    quote = S.bool("second_strategy_asks_for_a_quote_first")
    mks = [("taker", lambda: fx.BuyOption(fx.OPT_A, a1, 2 if capped else None)), ("probe", lambda: fx.BuyOption(fx.OPT_A, a2, None, quote)),
           ("bystander", lambda: fx.BuyOption(fx.OPT_B, 10))]
    alone = {}
    for name, mk in mks:
        alone[name] = fx.run_manager_options([mk()])[0][0]
    if order:
        mks = list(reversed(mks))
    together, book0, book1 = fx.run_manager_options([mk() for _, mk in mks])
    for (name, _), res in zip(mks, together):
        S.check(f"strategy-{name}:result==alone", res == alone[name])
    S.check("shared-order-book-frame-unchanged-by-the-runs", book0 == book1)
