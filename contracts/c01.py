"""C01 — reported net value == independent valuation of wallet plus positions (Broker.get_account_status and every
market's get_market_balance).

Modular: the account-level sum is verified against the CONTRACT of Market.get_market_balance (any balance object with some net
value), for several markets with quote tokens equal to / different from the account's; each market's get_market_balance is
verified against a valuation written from the statement over the raw positions; the 'counted exactly once' clause is the
two-market obligation on a liquidity position lent to a Squeeth vault."""
from decimal import Decimal
import z3
from pyvc.api import proof, native, exact, spec
from pyvc.sym import SV, DEC
from .common import REJECT
from .worlds import (aave_world, deribit_world, gmx_world, gmx2_world, squeeth_world, uni_world, uni_at_bar, SQ_LP, H0, H0_1, T0, prices, World)
from .aave_common import AAVE_CONTRACTS, SHAPES as AAVE_SHAPES, world as aave_world_of, total_supply_value, total_debt_value, dump
from .c14 import SQ_CONTRACTS, eff_collateral
from .c04 import UNI_CONTRACTS
from demeter import Broker, MarketInfo, TokenInfo
from demeter.broker import MarketBalance, Asset, Market


# ------------------------------------------------------------------------------------------------ account level
class _StubMarket:
    """a market reduced to what get_account_status reads: its quote token and a balance with some net value"""
    def __init__(self, quote, nv):
        self.quote_token, self._nv = quote, nv

    def get_market_balance(self):
        return MarketBalance(self._nv)


@native
def account_world(S, n_assets, quotes, account_quote, names=None):
    # token NAMES are part of the shape: the conversion rule is the same whatever the tokens are called, in particular when the
    # account's and a market's quote tokens are two different stable coins (each has its own price in the bar's price row)
    toks = [TokenInfo(names[i] if names else f"TK{i}", 18) for i in range(max(n_assets, 3))]
    b = Broker()
    b.quote_token = toks[account_quote]
    for i in range(n_assets):
        b._assets[toks[i]] = Asset(toks[i], S.dec(f"wallet_{i}", None, None))
    nvs = []
    for j, q in enumerate(quotes):
        nv = S.dec(f"market{j}_net_value", None, None)
        nvs.append(nv)
        b._markets[MarketInfo(f"m{j}")] = _StubMarket(toks[q], nv)
    pr = prices({t.name: S.dec(f"price_{t.name}", 0, None, lo_strict=True) for t in toks})
    return World(broker=b, toks=toks, nvs=nvs, prices=pr, quotes=quotes)


ACC_SHAPES = {"quick": [{"assets": 2, "quotes": [0, 1], "acc": 0}, {"assets": 3, "quotes": [1, 1, 2], "acc": 1}, {"assets": 1, "quotes": [], "acc": 0},
                        {"assets": 2, "quotes": [1, 2], "acc": 0, "names": ["USDC", "USDT", "DAI"]}, {"assets": 3, "quotes": [1, 2, 0], "acc": 0, "names": ["USD", "USDC", "WETH"]}],
              "thorough": [{"assets": 2, "quotes": [0, 1], "acc": 0}, {"assets": 3, "quotes": [1, 1, 2], "acc": 1}, {"assets": 1, "quotes": [], "acc": 0},
                           {"assets": 3, "quotes": [0, 1, 2, 0], "acc": 2}, {"assets": 0, "quotes": [1], "acc": 0},
                           {"assets": 2, "quotes": [1, 2], "acc": 0, "names": ["USDC", "USDT", "DAI"]}, {"assets": 3, "quotes": [1, 2, 0], "acc": 0, "names": ["USD", "USDC", "WETH"]},
                           {"assets": 3, "quotes": [0, 1], "acc": 2, "names": ["WETH", "USDT", "BUSD"]}]}


@proof("C01", "account/net_value==wallet-at-prices+sum(market-value-in-account-quote)", strength="S", shapes=ACC_SHAPES)
def po_account(S):
    sh = S.shape
    w = account_world(S, sh["assets"], sh["quotes"], sh["acc"], sh.get("names"))
    st = w.broker.get_account_status(w.prices, T0)
    wallet = 0
    for i in range(sh["assets"]):
        wallet = wallet + w.broker._assets[w.toks[i]].balance * w.prices[w.toks[i].name]
    markets = 0
    for j, q in enumerate(sh["quotes"]):
        conv = 1 if q == sh["acc"] else w.prices[w.toks[q].name]
        markets = markets + w.nvs[j] * conv
    S.check("net_value", S.eq(st.net_value, wallet + markets))
    S.check("asset_value", S.eq(st.asset_value, wallet))
    S.check("every-market-reported-once", len(st.market_status.data) == len(sh["quotes"]) and len(st.asset_balances.data) == sh["assets"])


# ------------------------------------------------------------------------------------------------ Uniswap
UNI_SHAPES = {"quick": [{"q0": True, "npos": 2, "out": [False, False]}, {"q0": False, "npos": 2, "out": [False, True]}, {"q0": True, "npos": 0, "out": []}],
              "thorough": [{"q0": True, "npos": 2, "out": [False, False]}, {"q0": False, "npos": 2, "out": [False, True]}, {"q0": True, "npos": 0, "out": []},
                           {"q0": True, "npos": 3, "out": [True, False, True]}, {"q0": False, "npos": 1, "out": [False]}]}


@native
def mark_transferred(w, flags):
    for k, f in zip(w.pos_keys, flags):
        w.market._positions[k].transferred = f


@proof("C01", "uniswap/market-value==liquidity-amounts+uncollected-fees-of-own-positions-in-quote", strength="S", shapes=UNI_SHAPES, contracts=UNI_CONTRACTS)
def po_uni(S):
    sh = S.shape
    w = uni_at_bar(uni_world(S, 6, 18, sh["q0"], sh["npos"], 0.05))
    mark_transferred(w, sh["out"])
    m = w.market
    b = m.get_market_balance()
    price = m._market_status.data.price
    val = 0
    n = 0
    for k, out in zip(w.pos_keys, sh["out"]):
        if out:
            continue                      # lent to another market: counted there
        n = n + 1
        a0, a1 = m.get_position_amount(k)
        p = m._positions[k]
        t0, t1 = a0 + p.pending_amount0, a1 + p.pending_amount1
        base, quote = (t1, t0) if sh["q0"] else (t0, t1)
        val = val + base * price + quote
    S.check("net_value", S.eq(b.net_value, val))
    S.check("position_count", b.position_count == n)


# ------------------------------------------------------------------------------------------------ Aave
@proof("C01", "aave/market-value==supplies-minus-debts-at-bar-prices(rounded-to-1e-4)", strength="S", shapes=AAVE_SHAPES, contracts=AAVE_CONTRACTS)
def po_aave(S):
    w = aave_world_of(S)
    m = w.market
    b = m.get_market_balance()
    v = total_supply_value(m) - total_debt_value(m)
    S.check("|net_value-(supplies-debts)|<=1e-4", abs(b.net_value - v) <= Decimal("0.0001"))
    S.check("counts", b.supplies_count == len(m._supplies) and b.borrows_count == len(m._borrows))


@proof("C01", "aave/market-value-after-an-operation-in-the-same-bar==supplies-minus-debts", strength="S",
       shapes={k: [s for s in v if s["op"] in s["supplies"]][:2] for k, v in AAVE_SHAPES.items()}, contracts=AAVE_CONTRACTS, covers=("accepted",), config={"max_seconds": 600})
def po_aave_after_operation(S):
    """'at every bar' includes a bar in which the account was valued, then an operation ran (in after_bar, say), then it is valued again
    before the next status refresh: the reported value follows the positions as they are now, whatever the market memoised earlier."""
    from .common import REJECT
    w = aave_world_of(S)
    m = w.market
    m.get_market_balance()                     # an earlier valuation in this bar
    which = S.int("which_operation", 0, 2)
    a = S.dec("amount", 0, 10 ** 12, lo_strict=True)
    try:
        if which == 0:
            m.withdraw(w.op, a)
        elif which == 1:
            m.supply(w.op, a, m._supplies[w.op].collateral)
        else:
            m.change_collateral(w.op, S.bool("flag"))
    except REJECT:
        return
    S.cover("accepted")
    b = m.get_market_balance()
    v = total_supply_value(m) - total_debt_value(m)
    S.check("|net_value-(supplies-debts)|<=1e-4", abs(b.net_value - v) <= Decimal("0.0001"))
    S.check("counts", b.supplies_count == len(m._supplies) and b.borrows_count == len(m._borrows))


# ------------------------------------------------------------------------------------------------ Squeeth (+ the lent LP position)
@proof("C01", "squeeth/market-value==collateral(incl-lent-LP)-minus-short;LP-counted-exactly-once", strength="S",
       shapes={"quick": [{"vaults": [False]}, {"vaults": [True]}, {"vaults": [False, True]}], "thorough": [{"vaults": [False]}, {"vaults": [True]}, {"vaults": [False, True]}, {"vaults": []}]},
       contracts=SQ_CONTRACTS)
def po_squeeth(S):
    w = squeeth_world(S, tuple(S.shape["vaults"]))
    m = w.market
    d = m._market_status.data
    E = m.get_twap_price(w.weth)
    b = m.get_market_balance()
    coll, short = 0, 0
    for vk in w.keys:
        coll = coll + eff_collateral(w, vk, E)
        short = short + m.vault[vk].osqth_short_amount
    S.check("net_value==collateral*ETH-price-short*oSQTH-price", S.eq(b.net_value, coll * d["WETH"] - short * (d["OSQTH"] * d["WETH"])))
    ub = w.uni.get_market_balance()
    if True in S.shape["vaults"]:
        S.check("lent-LP-not-counted-by-the-uniswap-market", ub.net_value == 0 and ub.position_count == 0)
        S.check("lent-LP-counted-by-the-vault", w.uni._positions[SQ_LP].transferred == True)


@proof("C01", "lent-LP/transferred<=>held-by-a-vault(preserved)", strength="S", shapes={"quick": [{"lp": True}, {"lp": False}], "thorough": [{"lp": True}, {"lp": False}]}, contracts=SQ_CONTRACTS)
def po_lent(S):
    """invariant: a uniswap position is marked transferred iff exactly one vault holds it — preserved by deposit_uni_position,
    withdraw_uni_position and the liquidation's redemption (which removes the position altogether)"""
    from .worlds import Position
    w = squeeth_world(S, (S.shape["lp"],))
    m, vk = w.market, w.keys[0]
    if not S.shape["lp"]:
        add_free_position(S, w)
    which = S.int("which_operation", 0, 2)
    try:
        if which == 0:
            m.deposit_uni_position(vk, SQ_LP)
        elif which == 1:
            m.withdraw_uni_position(vk, SQ_LP)
        else:
            m.update()
    except REJECT:
        S.cover("rejected")
    holders = len([v for v in m.vault.values() if v.uni_nft_id == SQ_LP])
    if SQ_LP in w.uni._positions:
        S.check("transferred<=>held-by-exactly-one-vault", (w.uni._positions[SQ_LP].transferred == True) == (holders == 1) and holders <= 1)
    else:
        S.check("redeemed-position-is-held-by-no-vault", holders == 0)


@native
def add_free_position(S, w):
    from .worlds import Position
    w.uni._positions[SQ_LP] = Position(S.dec("lp_pending_weth", 0, 10 ** 6), S.dec("lp_pending_osqth", 0, 10 ** 6), S.int("lp_liquidity", 0, 10 ** 30), Decimal(1), Decimal(2), Decimal(1), False)


# ------------------------------------------------------------------------------------------------ Deribit
@proof("C01", "deribit/market-value==cash+options-at-mark,also-on-closed-bars-after-cash-moves", strength="S",
       shapes={"quick": [{"ts": "open"}, {"ts": "closed"}], "thorough": [{"ts": "open"}, {"ts": "closed"}]})
def po_deribit(S):
    from .c15 import half_up_6
    open_w = deribit_world(S, (("I0", "CALL", "open"), ("I1", "PUT", "open")), 1, 1, ("I0", "I1"), H0)
    m = open_w.market
    b0 = m.get_market_balance()
    val = 0
    for name, p in m.positions.items():
        val = val + exact(p.amount) * half_up_6(Decimal(str(m._market_status.data.at[name, "mark_price"])))
    S.check("open-bar:net_value==cash+sum(amount*mark)", S.eq(b0.net_value, exact(m.balance) + val))
    if S.shape["ts"] == "closed":
        # the next (closed) minute: only cash can move
        from demeter.deribit import DeribitMarketStatus
        m.set_market_status(DeribitMarketStatus(H0_1, None), m._price_status)
        a = S.dec("amount", 0, 10 ** 6)
        try:
            if S.bool("is_deposit"):
                m.deposit(a)
            else:
                m.withdraw(a)
        except REJECT:
            pass
        b1 = m.get_market_balance()
        S.check("closed-bar:net_value==live-cash+options-at-last-mark", S.eq(b1.net_value, exact(m.balance) + val))


# ------------------------------------------------------------------------------------------------ GMX
@proof("C01", "gmx-v1/market-value==shares*glp_price+rewards*reward-token-price", strength="U")
def po_gmx1(S):
    w = gmx_world(S)
    m = w.market
    b = m.get_market_balance()
    S.check("net_value", S.eq(b.net_value, m.glp_amount * w.data["glp_price"] + m.reward * w.data["wavax_price"] / 10 ** 30))


@proof("C01", "gmx-v2/market-value==shares*poolValue/supply", strength="S", shapes={"quick": [{"virtual": True}], "thorough": [{"virtual": True}, {"virtual": False}]})
def po_gmx2(S):
    w = gmx2_world(S, S.shape["virtual"])
    m, d = w.market, w.data
    S.assume(d["longAmount"] * d["longPrice"] + d["shortAmount"] * d["shortPrice"] > 0)
    b = m.get_market_balance()
    S.check("net_value", S.eq(b.net_value, m.amount * d["poolValue"] / d["marketTokensSupply"]))
