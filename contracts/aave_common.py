"""Shared specification text for the Aave properties (C10-C13, C03/C04 Aave part): written from the statements, over the
raw position state (base amounts, collateral flags), the bar's indices and prices and the risk parameters — never through
the market's own derived views or caches."""
from decimal import Decimal
from pyvc.api import spec, native, exact
from .worlds import aave_world

INF = Decimal("inf")

# shapes: which tokens exist / are supplied / are borrowed (concrete); everything numeric and every flag is symbolic
def _sh(tokens, supplies, borrows, op):
    return {"tokens": list(tokens), "supplies": list(supplies), "borrows": list(borrows), "op": op}


SHAPES_QUICK = [
    _sh("AB", "A", "B", "A"), _sh("AB", "A", "B", "B"), _sh("AB", "AB", "AB", "A"), _sh("AB", "AB", "", "B"), _sh("AB", "", "", "A"),
]
SHAPES_THOROUGH = SHAPES_QUICK + [
    _sh("AB", "AB", "AB", "B"), _sh("AB", "B", "A", "A"), _sh("AB", "A", "A", "A"), _sh("AB", "AB", "A", "A"), _sh("AB", "A", "AB", "B"),
    _sh("ABC", "ABC", "AB", "A"), _sh("ABC", "AB", "C", "C"), _sh("ABC", "AC", "BC", "B"),
]
SHAPES = {"quick": SHAPES_QUICK, "thorough": SHAPES_THOROUGH}
SHAPES_WITH_SUPPLY_OF_OP = {k: [s for s in v if s["op"] in s["supplies"]] for k, v in SHAPES.items()}
SHAPES_WITH_DEBT_OF_OP = {k: [s for s in v if s["op"] in s["borrows"]] for k, v in SHAPES.items()}
SHAPES_WITH_SUPPLY = {k: [s for s in v if s["supplies"]] for k, v in SHAPES.items()}
SHAPES_WITH_DEBT = {k: [s for s in v if s["borrows"]] for k, v in SHAPES.items()}


def world(S, tag=""):
    sh = S.shape
    names = ["TK" + c for c in sh["tokens"]]
    w = aave_world(S, names, ["TK" + c for c in sh["supplies"]], ["TK" + c for c in sh["borrows"]], tag)
    w.op = w.tokens["TK" + sh["op"]]
    # well-formedness of risk parameters and of reachable positions (the "type invariant" of the inputs):
    #   a token usable as collateral has a positive liquidation threshold; only such tokens carry the collateral flag
    m = w.market
    for n in names:
        S.assume(not m._risk_parameters.at[n, "usageAsCollateralEnabled"] or m._risk_parameters.at[n, "reserveLiquidationThreshold"] > 0)
    return w


# ------------------------------------------------------------------------------------------------ raw state access
@spec
def liq_index(m, tok):
    return m._market_status.data[(tok.name, "liquidity_index")]


@spec
def borrow_index(m, tok):
    return m._market_status.data[(tok.name, "variable_borrow_index")]


@spec
def price(m, tok):
    return m._price_status[tok.name]


@spec
def supply_amount(m, tok):
    return m._supplies[tok].base_amount * liq_index(m, tok) if tok in m._supplies else 0


@spec
def debt_amount(m, tok):
    return m._borrows[tok].base_amount * borrow_index(m, tok) if tok in m._borrows else 0


@spec
def LT(m, tok):
    return m._risk_parameters.at[tok.name, "reserveLiquidationThreshold"]


@spec
def LTV(m, tok):
    return m._risk_parameters.at[tok.name, "baseLTVasCollateral"]


@spec
def BONUS(m, tok):
    return m._risk_parameters.at[tok.name, "reserveLiquidationBonus"]


@spec
def total_supply_value(m):
    acc = 0
    for tok in m._supplies:
        acc = acc + supply_amount(m, tok) * price(m, tok)
    return acc


@spec
def total_collateral_value(m):
    acc = 0
    for tok, info in m._supplies.items():
        if info.collateral:
            acc = acc + supply_amount(m, tok) * price(m, tok)
    return acc


@spec
def total_debt_value(m):
    acc = 0
    for tok in m._borrows:
        acc = acc + debt_amount(m, tok) * price(m, tok)
    return acc


@spec
def weighted_collateral(m, which):
    """sum over collateral supplies of value x LT (which='LT') or value x LTV (which='LTV')"""
    acc = 0
    for tok, info in m._supplies.items():
        if info.collateral:
            acc = acc + supply_amount(m, tok) * price(m, tok) * (LT(m, tok) if which == "LT" else LTV(m, tok))
    return acc


@spec
def net_value(m):
    return total_supply_value(m) - total_debt_value(m)


@spec
def hf_at_least_one(m):
    """health factor >= 1 (true by definition without debt) — stated without a division"""
    return total_debt_value(m) == 0 or weighted_collateral(m, "LT") >= total_debt_value(m)


DUST = Decimal("1e-18")     # helper.MIN_TOKEN_VALUE: a remaining base amount below 1e-18 is dropped (C10: "nothing beyond 1e-18")


@spec
def hf_at_least_one_mod_dust(m, tok):
    """health factor >= 1 up to the 1e-18 dust of `tok` that sub_base_amount drops when a position is reduced"""
    return total_debt_value(m) == 0 or \
        weighted_collateral(m, "LT") + DUST * liq_index(m, tok) * price(m, tok) * LT(m, tok) >= total_debt_value(m)


@spec
def hf_below_one(m):
    return total_debt_value(m) > 0 and weighted_collateral(m, "LT") < total_debt_value(m)


@native
def raw_state(w):
    """everything C04 speaks about: wallet, positions (with flags), action log"""
    m = w.market
    return {"wallet": {t.name: a.balance for t, a in w.broker._assets.data.items()},
            "supplies": {t.name: (i.base_amount, i.collateral, i.begin_supply_index) for t, i in m._supplies.items()},
            "borrows": {t.name: (i.base_amount, i.begin_borrow_index) for t, i in m._borrows.items()},
            "actions": len(w.actions)}


@native
def wallet_balance(w, tok):
    a = w.broker._assets.data.get(tok)
    return a.balance if a is not None else 0


# ------------------------------------------------------------------------------------------------ callee contracts
import z3
from pyvc.sym import SV, DEC, as_real_term, lift
from demeter.aave.core import AaveV3CoreLib


def rate_to_apy_contract(interp, args, kwargs):
    """AaveV3CoreLib.rate_to_apy(rate) = (1 + rate/N)**N - 1 with N = 31536000: an uninterpreted FUNCTION of the rate
    (same rate -> same apy), non-negative for a non-negative rate.  A concrete rate runs the real code."""
    r = args[0]
    if not isinstance(r, SV):
        return AaveV3CoreLib.rate_to_apy(r)
    p = interp.path
    f = p.uf("rate_to_apy", z3.RealSort(), z3.RealSort())
    t = f(as_real_term(r))
    p.assume(z3.Implies(as_real_term(r) >= 0, t >= 0), "contract rate_to_apy: a function of the rate, >= 0 for rate >= 0 (power with exponent 31536000 not interpreted)")
    return SV(t, DEC)


AAVE_CONTRACTS = {AaveV3CoreLib.rate_to_apy: rate_to_apy_contract}


# ------------------------------------------------------------------------------------------------ views / caches
def read_views(m):
    """every derived view the statement lists, read through the market's public properties"""
    return {
        "supplies_value": dict(m.supplies_value), "total_supply_value": m.total_supply_value,
        "collateral_value": dict(m.collateral_value), "total_collateral_value": m.total_collateral_value,
        "borrows_value": dict(m.borrows_value), "total_borrows_value": m.total_borrows_value,
        "supplies": dict(m.supplies), "borrows": dict(m.borrows),
        "health_factor": m.health_factor, "ltv": m.ltv, "max_ltv": m.max_ltv, "liquidation_threshold": m.liquidation_threshold,
        "supply_apy": m.supply_apy, "borrow_apy": m.borrow_apy,
        "balance": m.get_market_balance(),
    }


@native
def reset_caches(m):
    for c in (m._collaterals_amount_cache, m._supplies_amount_cache, m._supplies_cache, m._borrows_amount_cache, m._borrows_cache):
        c.empty = True
        c._value = {}


@native
def dump(x):
    from pyvc.api import dump_state
    return dump_state(x)


@native
def add_next_bar(S, w, tag="next_", future=False):
    """give the market an input frame with rows T0 (the current status) and T1 (fresh symbols); returns the T1 prices"""
    import pandas as pd
    from .worlds import aave_status, T0, T1
    m = w.market
    names = [t for t in w.tokens]
    row1 = aave_status(S, names, tag)
    cols = {T0: m._market_status.data, T1: row1}
    if future:
        cols[pd.Timestamp("2024-01-01 00:02:00")] = aave_status(S, names, "future_")      # a bar after the one under test
    m._data = pd.DataFrame(cols).T.astype(object)
    return pd.Series({n: S.dec(f"{tag}{n}_price", 0, 10 ** 6, lo_strict=True) for n in names}, dtype=object)
