"""C18 — time triggers (demeter/strategy/trigger.py).

Timestamps are integer minutes (pyvc.symtime); bars strictly increase.  Each trigger class is constructed through its real
__init__ and driven through its real when()/is_out_date()/do().  Denotations (from the statement):
  AtTime {time} | AtTimes set(times) | TimeRange [start, end) | TimeRanges union | Period: {t0 if immediate} U {t0+pending+k*delta, k>=1}
  | Periods: union over the periods, t0 = first evaluated bar.
Period triggers are stateful: a class invariant INV(last) is proved to be established by the first call and preserved by every
later call on ANY later bar (the grid may skip due times), with when(bar) <=> bar in Due; whole histories follow by induction.
"""
from pyvc.api import proof, native, spec
from pyvc.symtime import mk_time, mk_delta
from demeter.strategy import trigger as tg
from demeter.broker._typing import Snapshot

HORIZON = 10 ** 7      # minutes (19 years): only bounds the sampled/native values; the proofs do not depend on it
MODELS = {"models": {tg.to_minute: (lambda interp, args, kwargs: args[0])}}   # times are whole minutes by construction


@native
def snap(ts):
    return Snapshot(ts, 0, None)


@native
def recorder():
    calls = []

    def do(snapshot, **kwargs):
        calls.append((snapshot, kwargs))
        return len(calls)
    return calls, do


def _noop(snapshot, **kwargs):
    return None


_noop.__pyvc_native__ = True


def _time(S, name):
    return mk_time(S.int(name, 0, HORIZON))


# ------------------------------------------------------------------------------------------------ stateless kinds
@proof("C18", "AtTimeTrigger/fires-exactly-at-its-time", strength="U", config=MODELS)
def po_at_time(S):
    t = _time(S, "time")
    bar = _time(S, "bar")
    trig = tg.AtTimeTrigger(t, _noop)
    S.check("when<=>bar==time", trig.when(snap(bar)) == (bar == t))
    later = _time(S, "later_bar")
    S.assume(later > bar)
    S.check("retired=>never-fires-again", not trig.is_out_date(bar) or not trig.when(snap(later)))
    S.check("retired-once-passed", trig.is_out_date(bar) == (bar >= t))


KTIMES = {"quick": [{"k": 1}, {"k": 2}, {"k": 3}], "thorough": [{"k": k} for k in (1, 2, 3, 4)]}


@proof("C18", "AtTimesTrigger/fires-exactly-at-listed-times", strength="S", shapes=KTIMES, config=MODELS)
def po_at_times(S):
    times = [_time(S, f"time{i}") for i in range(S.shape["k"])]
    bar = _time(S, "bar")
    trig = tg.AtTimesTrigger(list(times), _noop)
    due = False
    for t in times:
        due = due or bar == t
    S.check("when<=>bar-in-times", trig.when(snap(bar)) == due)
    later = _time(S, "later_bar")
    S.assume(later > bar)
    S.check("retired=>never-fires-again", not trig.is_out_date(bar) or not trig.when(snap(later)))
    all_passed = True
    for t in times:
        all_passed = all_passed and bar >= t
    S.check("retired<=>all-times-passed", trig.is_out_date(bar) == all_passed)


@proof("C18", "TimeRangeTrigger/fires-on-every-bar-in-[start,end)", strength="U", config=MODELS)
def po_range(S):
    a = _time(S, "start")
    b = _time(S, "end")
    bar = _time(S, "bar")
    trig = tg.TimeRangeTrigger(tg.TimeRange(a, b), _noop)
    S.check("when<=>start<=bar<end", trig.when(snap(bar)) == (a <= bar and bar < b))
    later = _time(S, "later_bar")
    S.assume(later > bar)
    S.check("retired=>never-fires-again", not trig.is_out_date(bar) or not trig.when(snap(later)))


@proof("C18", "TimeRangesTrigger/fires-on-every-bar-in-any-range", strength="S", shapes=KTIMES, config=MODELS)
def po_ranges(S):
    rs = [(_time(S, f"start{i}"), _time(S, f"end{i}")) for i in range(S.shape["k"])]
    bar = _time(S, "bar")
    trig = tg.TimeRangesTrigger([tg.TimeRange(a, b) for (a, b) in rs], _noop)
    due = False
    for (a, b) in rs:
        due = due or (a <= bar and bar < b)
    S.check("when<=>bar-in-some-range", trig.when(snap(bar)) == due)
    later = _time(S, "later_bar")
    S.assume(later > bar)
    S.check("retired=>never-fires-again", not trig.is_out_date(bar) or not trig.when(snap(later)))


# ------------------------------------------------------------------------------------------------ periodic kinds
@spec
def due_period(bar_m, t0_m, pending_m, delta_m, immediate):
    """bar in {t0 if immediate} U {t0 + pending + k*delta | k >= 1}   (all in minutes; delta_m concrete per shape)"""
    first = t0_m + pending_m + delta_m
    return (immediate and bar_m == t0_m) or (bar_m >= first and (bar_m - first) % delta_m == 0)


@spec
def inv_period(nm_m, last_m, t0_m, pending_m, delta_m):
    """class invariant after the bar `last`: _next_match is the least due time (of the periodic part) after `last`."""
    first = t0_m + pending_m + delta_m
    return {"next-match-on-the-period-grid": nm_m >= first and (nm_m - first) % delta_m == 0,
            "next-match-after-last-bar": last_m < nm_m,
            "no-due-time-skipped": nm_m == first or nm_m - delta_m <= last_m}


PERIODS = {"quick": [{"delta": d} for d in (1, 2, 3, 60)], "thorough": [{"delta": d} for d in (1, 2, 3, 5, 7, 15, 60, 1440)]}


@proof("C18", "PeriodTrigger/first-call", strength="S", shapes=PERIODS, config=MODELS)
def po_period_first(S):
    d = S.shape["delta"]
    t0 = S.int("t0", 0, HORIZON)
    pend = S.int("pending", 0, HORIZON)
    imm = S.bool("trigger_immediately")
    trig = tg.PeriodTrigger(mk_delta(d), _noop, trigger_immediately=imm, pending=mk_delta(pend))
    r = trig.when(snap(mk_time(t0)))
    S.check("fires-iff-immediate", r == imm)
    S.check("when<=>due", r == due_period(t0, t0, pend, d, imm))
    nm = (trig._next_match - mk_time(0)) // mk_delta(1)
    S.check_all("invariant-established:", inv_period(nm, t0, t0, pend, d))
    S.check("never-retired", not trig.is_out_date(mk_time(t0)))


@proof("C18", "PeriodTrigger,PeriodsTrigger/defaults:no-delay,not-immediately", strength="S", shapes=PERIODS, config=MODELS)
def po_period_defaults(S):
    """'after an OPTIONAL delay (and immediately IF REQUESTED)': constructed without the two options the trigger has no delay and does
       not fire on the first bar — the first due time is start + period."""
    d = S.shape["delta"]
    t0 = S.int("t0", 0, HORIZON)
    trig = tg.PeriodTrigger(mk_delta(d), _noop)
    r = trig.when(snap(mk_time(t0)))
    S.check("single:does-not-fire-on-the-first-bar", r == False)
    S.check("single:first-due-time==start+period", (trig._next_match - mk_time(0)) // mk_delta(1) == t0 + d)
    trigs = tg.PeriodsTrigger([mk_delta(d), mk_delta(d + 1)], _noop)
    r2 = trigs.when(snap(mk_time(t0)))
    S.check("several:does-not-fire-on-the-first-bar", r2 == False)
    S.check("several:first-due-times==start+period", (trigs._next_matches[0] - mk_time(0)) // mk_delta(1) == t0 + d
            and (trigs._next_matches[1] - mk_time(0)) // mk_delta(1) == t0 + d + 1)


@proof("C18", "PeriodTrigger/later-call-on-any-later-bar", strength="S", shapes=PERIODS, config=MODELS,
       covers=["on-due-time", "between-due-times", "grid-skipped-a-due-time"])
def po_period_step(S):
    d = S.shape["delta"]
    if d == "sym":
        d = S.int("delta", 1, HORIZON)
    t0 = S.int("t0", 0, HORIZON)
    pend = S.int("pending", 0, HORIZON)
    imm = S.bool("trigger_immediately")
    last = S.int("last_bar", 0, HORIZON)
    k = S.int("k", 1, HORIZON)
    nm = t0 + pend + k * d
    S.assume(last >= t0)
    S.assume_all(inv_period(nm, last, t0, pend, d))
    bar = S.int("bar", 0, 3 * HORIZON)
    S.assume(bar > last)
    trig = tg.PeriodTrigger(mk_delta(d), _noop, trigger_immediately=imm, pending=mk_delta(pend))
    trig._next_match = mk_time(nm)
    r = trig.when(snap(mk_time(bar)))
    S.check("when<=>due", r == due_period(bar, t0, pend, d, imm))
    nm2 = (trig._next_match - mk_time(0)) // mk_delta(1)
    S.check_all("invariant-preserved:", inv_period(nm2, bar, t0, pend, d))
    S.check("never-retired", not trig.is_out_date(mk_time(bar)))
    if bar == nm:
        S.cover("on-due-time")
    elif bar < nm:
        S.cover("between-due-times")
    else:
        S.cover("grid-skipped-a-due-time")


MULTI = {"quick": [{"deltas": [2, 3]}, {"deltas": [1, 60]}, {"deltas": [5]}],
         "thorough": [{"deltas": ds} for ds in ([2, 3], [1, 60], [5], [2, 4], [3, 3], [2, 3, 5], [60, 1440], [7, 15, 60])]}


@proof("C18", "PeriodsTrigger/first-call", strength="S", shapes=MULTI, config=MODELS)
def po_periods_first(S):
    ds = S.shape["deltas"]
    t0 = S.int("t0", 0, HORIZON)
    pend = S.int("pending", 0, HORIZON)
    imm = S.bool("trigger_immediately")
    trig = tg.PeriodsTrigger([mk_delta(d) for d in ds], _noop, trigger_immediately=imm, pending=mk_delta(pend))
    r = trig.when(snap(mk_time(t0)))
    S.check("fires-iff-immediate", r == imm)
    for i in range(len(ds)):
        nm = (trig._next_matches[i] - mk_time(0)) // mk_delta(1)
        S.check_all(f"period{i}/invariant-established:", inv_period(nm, t0, t0, pend, ds[i]))


@proof("C18", "PeriodsTrigger/later-call:periods-independent", strength="S", shapes=MULTI, config=MODELS,
       covers=["two-periods-coincide"])
def po_periods_step(S):
    ds = S.shape["deltas"]
    t0 = S.int("t0", 0, HORIZON)
    pend = S.int("pending", 0, HORIZON)
    imm = S.bool("trigger_immediately")
    last = S.int("last_bar", 0, HORIZON)
    S.assume(last >= t0)
    bar = S.int("bar", 0, 3 * HORIZON)
    S.assume(bar > last)
    nms = []
    for i in range(len(ds)):
        k = S.int(f"k{i}", 1, HORIZON)
        nm = t0 + pend + k * ds[i]
        S.assume_all(inv_period(nm, last, t0, pend, ds[i]))
        nms.append(nm)
    trig = tg.PeriodsTrigger([mk_delta(d) for d in ds], _noop, trigger_immediately=imm, pending=mk_delta(pend))
    trig._next_matches = [mk_time(nm) for nm in nms]
    r = trig.when(snap(mk_time(bar)))
    due = False
    ndue = 0
    for i in range(len(ds)):
        di = due_period(bar, t0, pend, ds[i], False)
        due = due or di
        ndue = ndue + (1 if di else 0)
    S.check("when<=>due-for-some-period", r == due)
    for i in range(len(ds)):
        nm2 = (trig._next_matches[i] - mk_time(0)) // mk_delta(1)
        S.check_all(f"period{i}/invariant-preserved:", inv_period(nm2, bar, t0, pend, ds[i]))
    if len(ds) < 2 or ndue >= 2:
        S.cover("two-periods-coincide")


# ------------------------------------------------------------------------------------------------ do()
@proof("C18", "Trigger.do/calls-the-action-once-with-the-extra-arguments", strength="U", config=MODELS)
def po_do(S):
    calls, do = recorder()
    bar = _time(S, "bar")
    x = S.int("extra_arg")
    for trig in (tg.AtTimeTrigger(bar, do, a=x, b="s"), tg.PeriodTrigger(mk_delta(1), do, a=x, b="s"),
                 tg.TimeRangeTrigger(tg.TimeRange(bar, bar), do, a=x, b="s")):
        n0 = len(calls)
        sn = snap(bar)
        ret = trig.do(sn)
        S.check("called-exactly-once", len(calls) == n0 + 1)
        S.check("with-the-snapshot", calls[-1][0] is sn)
        S.check("with-the-extra-arguments", len(calls[-1][1]) == 2 and calls[-1][1]["a"] == x and calls[-1][1]["b"] == "s")
        S.check("returns-the-action's-result", ret == n0 + 1)


@proof("C18", "bar-loop/several-triggers-fire-on-their-denoted-bars-through-the-real-Actuator(bounded)", strength="B",
       config={"bounded_samples": {"quick": 60, "thorough": 800}})
def po_loop(S):
    """bounded stand-in for the trigger block of Actuator.run (evaluate every live trigger on every bar, retire only the out-of-date
    ones): 1-3 real triggers on one strategy — also with one retiring on the very bar on which the next one is due or first evaluated —
    run through the real bar loop over one-minute bars; each fires on exactly the minutes its specification denotes"""
    from fixtures import backtest_fixture as fx
    n = S.int("bars", 4, 14)
    k = S.int("triggers", 1, 3)
    specs, want = [], []
    for i in range(3):
        kind = S.int(f"kind{i}", 0, 2)
        a = S.int(f"a{i}", 0, 9)
        b = S.int(f"b{i}", 1, 6)
        imm = S.bool(f"immediately{i}")
        if i >= k:
            continue
        if kind == 0:
            specs.append(("at", a))
            want.append([a] if a < n else [])
        elif kind == 1:
            specs.append(("range", a, a + b))
            want.append([t for t in range(n) if a <= t and t < a + b])
        else:
            pend = a % 3
            specs.append(("period", b, imm, pend))
            want.append(([0] if imm else []) + [t for t in range(1, n) if t > pend and (t - pend) % b == 0])
    got = fx.run_triggers(n, specs)
    for i in range(k):
        S.check(f"trigger-{i}:fires-on-exactly-the-denoted-bars", got[i] == want[i])
