"""C17 — GMX mint / redeem: fees bounded and rule-based, round trips never profit (demeter/gmx/market.py; v2 in c17v2).

Oracles from the statement: the Vault's integer fee rule (Vault.getFeeBasisPoints, written here as a spec function with its
integer divisions), value-per-share minting with the contract's round-down steps, pro-rata rewards, and the round-trip
inequality sell_glp(buy_glp(a)) <= a in a fixed pool state."""
import math
from decimal import Decimal
from pyvc.api import proof, native, exact, spec, EffectContract
from demeter.gmx import GmxMarket
from .common import REJECT
from .worlds import gmx_world
from .aave_common import dump

TOKS = {"quick": [{"tokens": ["WETH", "WAVAX"], "op": "WETH"}, {"tokens": ["WETH", "WAVAX", "USDC"], "op": "USDC"}],
        "thorough": [{"tokens": ["WETH", "WAVAX"], "op": "WETH"}, {"tokens": ["WETH", "WAVAX"], "op": "WAVAX"},
                     {"tokens": ["WETH", "WAVAX", "USDC"], "op": "USDC"}, {"tokens": ["WETH", "WAVAX", "USDC"], "op": "WETH"}]}
BASE_BPS, TAX_BPS = 25, 60


def world(S):
    w = gmx_world(S, tuple(S.shape["tokens"]))
    w.op = w.tokens[S.shape["op"]]
    return w


@spec
def target_amount(w, tok):
    d = w.data
    total = 0
    for n in w.tokens:
        total = total + d[n.lower() + "_weight"]
    return exact(d[tok.name.lower() + "_weight"]) * d["usdg"] / total


@spec
def vault_fee_rule(initial, delta, increase, target):
    """Vault.getFeeBasisPoints(token, usdgDelta, 25, 60, increment) with Solidity's integer divisions"""
    nxt = initial + delta if increase else (0 if delta > initial else initial - delta)
    if target == 0:
        return BASE_BPS
    d0 = abs(initial - target)
    d1 = abs(nxt - target)
    if d1 < d0:
        rebate = math.floor(TAX_BPS * d0 / target)
        return 0 if rebate > BASE_BPS else BASE_BPS - rebate
    avg = math.floor((d0 + d1) / 2)
    if avg > target:
        avg = target
    return BASE_BPS + math.floor(TAX_BPS * avg / target)


@proof("C17", "v1/get_target_amount==weight-share-of-usdg-supply", strength="S", shapes=TOKS)
def po_target(S):
    w = world(S)
    total = 0
    for n in w.tokens:
        total = total + w.data[n.lower() + "_weight"]
    S.assume(total > 0)
    S.check("target", S.eq(w.market.get_target_amount(w.op), target_amount(w, w.op)))


@native
def next_bar_row(S, w):
    """the pool row of a LATER bar: every column a fresh symbol ('nb_*'), in particular other token weights"""
    import pandas as pd
    from demeter import MarketStatus
    from .worlds import T1
    d = {}
    for k, v in w.data.items():
        if k.endswith("_weight"):
            d[k] = S.int("nb_" + k, 0, 10 ** 6)
        elif k.endswith("_usdg") or k in ("usdg", "interval"):
            d[k] = S.int("nb_" + k, 0, 10 ** 30)
        elif k.endswith("_price") and k != "glp_price":
            d[k] = S.dec("nb_" + k, 10 ** 24, 10 ** 37)
        elif k == "glp":
            d[k] = S.dec("nb_glp", 1, 10 ** 30)
        elif k == "aum":
            d[k] = S.dec("nb_aum", 10 ** 12, 10 ** 42)
        else:
            d[k] = S.dec("nb_" + k, 0, 10 ** 6, lo_strict=True)
    return d, MarketStatus(T1, pd.Series(d, dtype=object))


@proof("C17", "v1/target-and-fee-follow-the-CURRENT-bar's-pool-row(after-a-fee-calculation-in-an-earlier-bar)", strength="S", shapes=TOKS, config={"max_seconds": 600})
def po_target_next_bar(S):
    """The rule is stated per bar: after a fee has been computed in one bar (which may fill any memo), a later bar with other
       token weights / USDG amounts must be priced from ITS row."""
    w = world(S)
    m = w.market
    total0 = 0
    for n in w.tokens:
        total0 = total0 + w.data[n.lower() + "_weight"]
    S.assume(total0 > 0)
    m.get_fee_basis_points(w.op, Decimal(S.int("usdg_delta_bar0", 0, 10 ** 30)), S.bool("increase_bar0"))       # bar 0: anything that prices a mint / redeem
    d1, st1 = next_bar_row(S, w)
    m.set_market_status(st1, m._price_status)
    w1 = World2(tokens=w.tokens, data=d1)
    total1 = 0
    for n in w.tokens:
        total1 = total1 + d1[n.lower() + "_weight"]
    S.assume(total1 > 0)
    S.check("target==weight-share-of-THIS-bar's-usdg-supply", S.eq(m.get_target_amount(w.op), target_amount(w1, w.op)))
    delta = S.int("usdg_delta", 0, 10 ** 30)
    inc = S.bool("increase")
    key = w.op.name.lower()
    tgt = target_amount(w1, w.op)
    S.assume(tgt == 0 or tgt >= 10 ** 6)          # as in the one-bar fee obligation: degenerate targets excluded
    fee = m.get_fee_basis_points(w.op, Decimal(delta), inc)
    S.check("fee-within-1bp-of-the-Vault-rule-on-THIS-bar's-row", abs(fee - vault_fee_rule(d1[key + "_usdg"], delta, inc, tgt)) <= 1)


class World2:
    def __init__(self, **kw):
        self.__dict__.update(kw)


@proof("C17", "v1/fee-basis-points:bounded-and-within-1bp-of-the-Vault-rule", strength="S", shapes=TOKS, config={"max_seconds": 600})
def po_fee(S):
    w = world(S)
    m = w.market
    total = 0
    for n in w.tokens:
        total = total + w.data[n.lower() + "_weight"]
    S.assume(total > 0)
    delta = S.int("usdg_delta", 0, 10 ** 30)
    inc = S.bool("increase")
    fee = m.get_fee_basis_points(w.op, Decimal(delta), inc)
    S.check("0<=fee<=base+tax(85bp)", fee >= 0 and fee <= BASE_BPS + TAX_BPS)
    tgt = target_amount(w, w.op)
    # well-formed pool: a target below 10^6 USDG units (1e-12 USD) is degenerate — there half a unit of integer rounding in the
    # average deviation is a visible fraction of the target and the Vault's own rule jumps by whole basis points per unit
    S.assume(tgt == 0 or tgt >= 10 ** 6)
    rule = vault_fee_rule(w.data[w.op.name.lower() + "_usdg"], delta, inc, tgt)
    S.check("|fee-VaultRule|<=1bp", abs(fee - rule) <= 1)


@spec
def floor_(x):
    return math.floor(x)


@spec
def buy_post(R, a, unit, price, supply, aum_usdg, U, got):
    """what a purchase guarantees, in the inequality form a caller needs (U = USDG paid in, after the fee, rounded down)"""
    return {"usdg-paid-in>=0": U >= 0, "usdg-paid-in-is-worth<=amount": R.le(U * 10 ** 30, a * unit * price),
            "minted-shares-worth<=usdg-paid-in": R.le(got * 10 ** 18 * aum_usdg, U * supply), "minted>=0": got >= 0}


@spec
def sell_post(R, sold, unit, price, supply, aum_usdg, V, back):
    """what a redemption guarantees (V = USDG redeemed for the shares, rounded down)"""
    return {"usdg-redeemed-worth<=shares": R.le(V * supply, sold * 10 ** 18 * aum_usdg),
            "tokens-paid-out-worth<=usdg-redeemed": R.le(back * unit * price, V * 10 ** 30), "paid-out>=0": back >= 0}


def buy_glp_body(hv, m, token, amount):
    """CONTRACT of GmxMarket.buy_glp, discharged by po_buy: requires amount > 0; debits the wallet (may reject), mints `got`
    shares with buy_post, adds them to the holding; nothing else changes"""
    hv.require("amount>0", amount > 0)
    d = m.market_status.data
    U, got = hv.dec("usdg_in"), hv.dec("minted")
    hv.assume_all(buy_post(hv, amount, 10 ** token.decimal, d[token.name.lower() + "_price"], d["glp"], floor_(d["aum"] / 10 ** 12), U, got))
    m.broker.subtract_from_balance(token, amount)
    m.glp_amount = m.glp_amount + got
    return got


def sell_glp_body(hv, m, token, glp_amount=0):
    """CONTRACT of GmxMarket.sell_glp, discharged by po_sell: requires 0 <= amount <= held (0 = everything); pays `back`
    with sell_post; holding -= sold; wallet += back"""
    sold = m.glp_amount if glp_amount == 0 else glp_amount
    if sold < 0 or sold > m.glp_amount:
        raise RuntimeError("rejected")
    d = m.market_status.data
    V, back = hv.dec("usdg_out"), hv.dec("paid_out")
    hv.assume_all(sell_post(hv, sold, 10 ** token.decimal, d[token.name.lower() + "_price"], d["glp"], floor_(d["aum"] / 10 ** 12), V, back))
    m.glp_amount = m.glp_amount - sold
    m.broker.add_to_balance(token, back)
    return back


@proof("C17", "v1/buy_glp:minted==price*amount/value-per-share-with-round-down-steps", strength="S", shapes=TOKS, covers=("accepted",), config={"max_seconds": 600})
def po_buy(S):
    w = world(S)
    m = w.market
    d = w.data
    total = 0
    for n in w.tokens:
        total = total + d[n.lower() + "_weight"]
    S.assume(total > 0)
    amount = S.dec("amount", 0, 10 ** 12, lo_strict=True)
    held0, wal0 = m.glp_amount, w.broker._assets[w.op].balance
    price = d[w.op.name.lower() + "_price"]
    unit = 10 ** w.op.decimal
    try:
        got = m.buy_glp(w.op, amount)
    except REJECT:
        return
    S.cover("accepted")
    usdg_gross = floor_(amount * unit * price / 10 ** 30)
    bps = m.get_fee_basis_points(w.op, Decimal(usdg_gross), True)
    after_fee = amount - amount * bps / 10000
    usdg = floor_(after_fee * unit * price / 10 ** 30)
    aum_usdg = floor_(d["aum"] / 10 ** 12)
    minted = exact(floor_(usdg * d["glp"] / aum_usdg)) / 10 ** 18
    # a cut: proved here as its own obligation, then a hypothesis for the inequality clauses below (they follow from the floor alone)
    S.lemma("minted==floor(floor(after-fee-amount*price)*supply/aum-in-usdg)", S.eq(got, minted))
    S.check("holding+=minted", S.eq(m.glp_amount, held0 + got))
    S.check("wallet-=amount", S.eq(w.broker._assets[w.op].balance, wal0 - amount) or (w.broker._assets[w.op].balance == 0 and abs(wal0 - amount) <= wal0 * Decimal("0.0000100001")))
    S.check_all("contract:", buy_post(S, amount, unit, price, d["glp"], aum_usdg, usdg, got))


@proof("C17", "v1/sell_glp:redeemed==share-of-aum/price-less-fee;only-held-shares", strength="S", shapes=TOKS, covers=("accepted",), config={"max_seconds": 600})
def po_sell(S):
    w = world(S)
    m = w.market
    d = w.data
    total = 0
    for n in w.tokens:
        total = total + d[n.lower() + "_weight"]
    S.assume(total > 0)
    glp = S.dec("glp_amount", None, None)
    held0, wal0 = m.glp_amount, w.broker._assets[w.op].balance
    price = d[w.op.name.lower() + "_price"]
    try:
        got = m.sell_glp(w.op, glp)
    except REJECT:
        return
    S.cover("accepted")
    sold = held0 if glp == 0 else glp
    S.check("no-more-shares-redeemed-than-held", S.le(sold, held0) and sold >= 0)
    aum_usdg = floor_(d["aum"] / 10 ** 12)
    usdg = floor_(sold * 10 ** 18 / d["glp"] * aum_usdg)
    bps = m.get_fee_basis_points(w.op, Decimal(usdg), False)
    gross = usdg / (price / 10 ** 30)
    out = (gross - gross * bps / 10000) / 10 ** w.op.decimal
    S.check("redeemed==floor(share*aum)/price*(1-fee)", S.eq(got, out))
    S.check("holding-=sold", S.eq(m.glp_amount, held0 - sold) and m.glp_amount >= 0)
    S.check("wallet+=redeemed", S.eq(w.broker._assets[w.op].balance, wal0 + got))
    S.check_all("contract:", sell_post(S, sold, 10 ** w.op.decimal, price, d["glp"], aum_usdg, usdg, got))


GLP_CONTRACTS = {GmxMarket.buy_glp: EffectContract("buy_glp", buy_glp_body), GmxMarket.sell_glp: EffectContract("sell_glp", sell_glp_body)}


@proof("C17", "v1/round-trip:sell_glp(buy_glp(a))<=a", strength="S", shapes=TOKS, covers=("both-accepted",), contracts=GLP_CONTRACTS,
       config={"max_seconds": 900})
def po_round_trip(S):
    """buy GLP with `a` of a token and redeem it at once for the same token in the same pool state — verified against the
    CONTRACTS of buy_glp and sell_glp (buy_post / sell_post, discharged by their own POs): minted shares are worth at most the
    USDG paid in, which is worth at most `a`; the USDG redeemed for those shares is at most their worth; the tokens paid out are
    worth at most that."""
    w = world(S)
    m = w.market
    a = S.dec("amount", 0, 10 ** 12, lo_strict=True)
    try:
        got = m.buy_glp(w.op, a)
        if got == 0:
            return
        back = m.sell_glp(w.op, got)
    except REJECT:
        return
    S.cover("both-accepted")
    S.check("never-returns-more-than-was-paid", S.le(back, a))


@proof("C17", "v1/rewards-accrue-pro-rata-to-the-share-of-supply", strength="U")
def po_reward(S):
    w = gmx_world(S)
    m = w.market
    r0 = m.reward
    m.update()
    S.check("reward+=interval*60*held/supply", S.eq(m.reward, r0 + exact(w.data["interval"]) * 60 * m.glp_amount / w.data["glp"]))
    S.check("reward-never-decreases", m.reward >= r0)


@proof("C17", "v1/market-balance==glp*glp_price+reward*wavax_price", strength="U")
def po_balance(S):
    w = gmx_world(S)
    m = w.market
    b = m.get_market_balance()
    S.check("net_value", S.eq(b.net_value, m.glp_amount * w.data["glp_price"] + m.reward * w.data["wavax_price"] / 10 ** 30))
    S.check("glp,reward", b.glp == m.glp_amount and b.reward == m.reward)


# ================================================================================================ GMX v2 (GM pools)
from .worlds import gmx2_world

V2 = {"quick": [{"virtual": True}, {"virtual": False}], "thorough": [{"virtual": True}, {"virtual": False}]}
FEE_POS, FEE_NEG = 0.0005, 0.0007
IMPACT_POS, IMPACT_NEG = 200000000000000000000 / 10 ** 30, 400000000000000000000 / 10 ** 30


def _impact_contract(interp, args, kwargs):
    """CONTRACT of SwapPriceUtils.getPriceImpactUsd used by the deposit obligations: SOME real number (its value is pinned to the
    imbalance rule by its own PO, v2/price-impact==imbalance-rule); the deposit arithmetic must be right for every impact."""
    from pyvc.sym import SV, FLT
    return SV(interp.path.fresh_real("priceImpactUsd"), FLT)


def _v2_contracts():
    from demeter.gmx.gmx_v2.SwapPricingUtils import SwapPriceUtils
    return {SwapPriceUtils.getPriceImpactUsd: _impact_contract}


def world2(S):
    w = gmx2_world(S, S.shape["virtual"])
    d = w.data
    S.assume(d["longAmount"] * d["longPrice"] + d["shortAmount"] * d["shortPrice"] > 0)
    return w


@spec
def impact_of(pa, pb, da, db):
    """price impact in USD of changing the two sides' USD values (pa, pb) by (da, db): factor x (|imbalance|^2 before - after),
    with the smaller positive factor on the improving part and the negative factor on the worsening part"""
    d0 = abs(pa - pb)
    d1 = abs(pa + da - (pb + db))
    same_side = (pa <= pb) == (pa + da <= pb + db)
    if same_side:
        if d1 < d0:
            return IMPACT_POS * (d0 * d0) - IMPACT_POS * (d1 * d1)
        return -(IMPACT_NEG * (d1 * d1) - IMPACT_NEG * (d0 * d0))
    pos, neg = IMPACT_POS * (d0 * d0), IMPACT_NEG * (d1 * d1)
    return pos - neg


@proof("C17", "v2/withdraw:amounts==pool-value-share-split-by-pool-composition-less-fee;only-held-shares", strength="S", shapes=V2, covers=("accepted",))
def po_v2_withdraw(S):
    w = world2(S)
    m, d = w.market, w.data
    amount = S.flt("gm_amount", None, None)
    held0 = m.amount
    wl0, ws0 = w.broker._assets[w.long].balance, w.broker._assets[w.short].balance
    n0 = len(w.actions)
    try:
        r = m.withdraw(amount)
    except REJECT:
        S.check("rejected-withdrawal-records-nothing", len(w.actions) == n0)
        return
    S.cover("accepted")
    S.check("no-more-shares-redeemed-than-held", amount >= 0 and S.le(amount, held0))
    usd = d["poolValue"] * amount / d["marketTokensSupply"]
    lu, su = d["longAmount"] * d["longPrice"], d["shortAmount"] * d["shortPrice"]
    long_gross = usd * lu / (lu + su) / d["longPrice"]
    short_gross = usd * su / (lu + su) / d["shortPrice"]
    S.check("long-out==share-less-0.07%", S.eq(r.long_amount, long_gross - FEE_NEG * long_gross) and S.eq(r.long_fee, FEE_NEG * long_gross))
    S.check("short-out==share-less-0.07%", S.eq(r.short_amount, short_gross - FEE_NEG * short_gross) and S.eq(r.short_fee, FEE_NEG * short_gross))
    S.check("value-out<=value-of-shares", S.le(r.long_amount * d["longPrice"] + r.short_amount * d["shortPrice"], usd))
    S.check("holding-=amount", S.eq(m.amount, held0 - amount) and m.amount >= 0)
    S.check("wallet+=out", S.eq(w.broker._assets[w.long].balance, wl0 + Decimal(r.long_amount)) and S.eq(w.broker._assets[w.short].balance, ws0 + Decimal(r.short_amount)))
    S.check("one-action", len(w.actions) == n0 + 1)


@proof("C17", "v2/deposit:minted==value-per-share-with-fee-factors-and-capped-impact", strength="S", shapes=V2, covers=("accepted",), contracts=_v2_contracts(),
       config={"max_seconds": 900})
def po_v2_deposit(S):
    w = world2(S)
    m, d = w.market, w.data
    la = S.flt("long_amount", 0, 10 ** 9)
    sa = S.flt("short_amount", 0, 10 ** 12)
    S.assume(la + sa > 0)
    held0 = m.amount
    wl0, ws0 = w.broker._assets[w.long].balance, w.broker._assets[w.short].balance
    try:
        r = m.deposit(la, sa)
    except REJECT:
        return
    S.cover("accepted")
    lv, sv = la * d["longPrice"], sa * d["shortPrice"]
    impact = r.price_impact_usd
    per_usd = d["marketTokensSupply"] / d["poolValue"]
    fee = FEE_POS if impact > 0 else FEE_NEG
    # each leg: fee on the amount; its share of the impact (by value); positive impact paid in the OTHER token, capped by the impact pool
    minted = 0
    for amt, val, p_in, p_out in ((la, lv, d["longPrice"], d["shortPrice"]), (sa, sv, d["shortPrice"], d["longPrice"])):
        if amt > 0:
            share = impact * val / (lv + sv)
            usd = (amt - fee * amt) * p_in
            if share > 0:
                usd = usd + min(share / p_out, d["impactPoolAmount"]) * p_out
            else:
                usd = usd + share
            minted = minted + per_usd * usd
    S.check("minted==supply/poolValue*(after-fee-value+impact-capped-by-the-impact-pool)", S.eq(r.gm_amount, minted))
    # "capped by the impact pool" is the min(..., impactPoolAmount) inside the minted formula above
    S.check("fees==factor*amount", S.eq(r.long_fee, fee * la if la > 0 else 0) and S.eq(r.short_fee, fee * sa if sa > 0 else 0))
    S.check("holding+=minted", S.eq(m.amount, held0 + r.gm_amount))
    S.check("wallet-=deposited", (S.eq(w.broker._assets[w.long].balance, wl0 - Decimal(la)) or w.broker._assets[w.long].balance == 0)
            and (S.eq(w.broker._assets[w.short].balance, ws0 - Decimal(sa)) or w.broker._assets[w.short].balance == 0))


@proof("C17", "v2/price-impact==imbalance-rule(min-with-virtual-inventory)", strength="S", shapes=V2, config={"max_seconds": 900})
def po_v2_impact(S):
    from demeter.gmx.gmx_v2.SwapPricingUtils import SwapPriceUtils, GetPriceImpactUsdParams
    w = world2(S)
    m, d = w.market, w.data
    la = S.flt("long_amount", 0, 10 ** 9)
    sa = S.flt("short_amount", 0, 10 ** 12)
    lv, sv = la * d["longPrice"], sa * d["shortPrice"]
    got = SwapPriceUtils.getPriceImpactUsd(GetPriceImpactUsdParams(m.pool_config, d["longPrice"], d["shortPrice"], lv, sv, True, True), m._market_status.data)
    real = impact_of(d["longAmount"] * d["longPrice"], d["shortAmount"] * d["shortPrice"], lv, sv)
    if real >= 0 or not S.shape["virtual"]:
        S.check("impact==rule-on-the-real-pool", S.eq(got, real))
    else:
        virt = impact_of(d["virtualSwapInventoryLong"] * d["longPrice"], d["virtualSwapInventoryShort"] * d["shortPrice"], lv, sv)
        S.check("negative-impact==worse-of-real-and-virtual-inventory", S.eq(got, min(real, virt)))


@proof("C17", "v2/round-trip:deposit-then-withdraw-never-returns-more-value-than-paid", strength="S", shapes=V2, covers=("both-accepted",), contracts=_v2_contracts(),
       config={"max_seconds": 900})
def po_v2_round_trip(S):
    w = world2(S)
    m, d = w.market, w.data
    la = S.flt("long_amount", 0, 10 ** 9)
    sa = S.flt("short_amount", 0, 10 ** 12)
    S.assume(la + sa > 0)
    try:
        r1 = m.deposit(la, sa)
        if r1.gm_amount <= 0:
            return
        r2 = m.withdraw(r1.gm_amount)
    except REJECT:
        return
    S.cover("both-accepted")
    paid = la * d["longPrice"] + sa * d["shortPrice"]
    back = r2.long_amount * d["longPrice"] + r2.short_amount * d["shortPrice"]
    S.check("value-back<=value-paid+positive-price-impact-credited", S.le(back, paid + max(r1.price_impact_usd, 0)))
    S.check("value-back<=value-paid", S.le(back, paid))


@proof("C17", "v2/market-balance==shares*poolValue/supply", strength="S", shapes=V2)
def po_v2_balance(S):
    w = world2(S)
    m, d = w.market, w.data
    b = m.get_market_balance()
    S.check("net_value", S.eq(b.net_value, m.amount * d["poolValue"] / d["marketTokensSupply"]))
