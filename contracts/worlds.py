"""Native world builders: real demeter objects with symbolic (or, natively, concrete) leaves planted into
their fields.  They run natively in both modes and never compute with the symbols."""
from decimal import Decimal
import pandas as pd
from pyvc.api import native
from demeter import TokenInfo, Broker, MarketInfo
from demeter.broker import MarketTypeEnum, Asset, MarketStatus
from demeter.uniswap import UniLpMarket, UniV3Pool
from demeter.uniswap._typing import Position, PositionInfo

T0 = pd.Timestamp("2024-01-01 00:00:00")
T1 = pd.Timestamp("2024-01-01 00:01:00")


class World:
    """Bag of the objects of one scenario."""
    def __init__(self, **kw):
        self.__dict__.update(kw)


@native
def uni_pool(d0, d1, q0, fee=0.05):
    t0 = TokenInfo("TKA", d0)
    t1 = TokenInfo("TKB", d1)
    return UniV3Pool(t0, t1, fee, t0 if q0 else t1)


@native
def series(d):
    """pandas Series with object dtype (cells may hold symbols)."""
    return pd.Series(d, dtype=object)


@native
def frame(rows):
    """DataFrame (object dtype) from {timestamp: {column: value}}."""
    return pd.DataFrame.from_dict(rows, orient="index").astype(object)


@native
def set_wallet(broker, token, amount):
    broker._assets[token] = Asset(token, amount)


@native
def uni_world(S, d0=6, d1=18, q0=True, npos=1, fee=0.05, tag=""):
    """Broker + UniLpMarket at bar T0 with `npos` positions; every number symbolic.
    Returns World(broker, market, pool, actions, pos_keys, rows)."""
    pool = uni_pool(d0, d1, q0, fee)
    actions = []
    broker = Broker(record_action_callback=actions.append)
    rows = {}
    for nm, ts in (("r0", T0), ("r1", T1)):
        rows[ts] = {
            "closeTick": S.int(f"{tag}{nm}_closeTick", -887272, 887272),
            "currentLiquidity": S.int(f"{tag}{nm}_currentLiquidity", 1, 10 ** 30),
            "inAmount0": S.int(f"{tag}{nm}_inAmount0", 0, 10 ** 30),
            "inAmount1": S.int(f"{tag}{nm}_inAmount1", 0, 10 ** 30),
            "price": S.dec(f"{tag}{nm}_price", 0, None, lo_strict=True),
        }
    data = frame(rows)
    market = UniLpMarket(MarketInfo("uni"), pool, data=data)
    broker.add_market(market)
    set_wallet(broker, pool.token0, S.dec(f"{tag}wallet0", 0, None))
    set_wallet(broker, pool.token1, S.dec(f"{tag}wallet1", 0, None))
    keys = []
    for i in range(npos):
        lo = S.int(f"{tag}pos{i}_lower", -887272, 887272)
        up = S.int(f"{tag}pos{i}_upper", -887272, 887272)
        k = PositionInfo(lo, up)
        keys.append(k)
        market._positions[k] = Position(S.dec(f"{tag}pos{i}_pending0", 0, None), S.dec(f"{tag}pos{i}_pending1", 0, None),
                                        S.int(f"{tag}pos{i}_liquidity", 0, 10 ** 30),
                                        S.dec(f"{tag}pos{i}_lower_price", 0, None, lo_strict=True),
                                        S.dec(f"{tag}pos{i}_upper_price", 0, None, lo_strict=True),
                                        S.dec(f"{tag}pos{i}_init_price", 0, None, lo_strict=True))
    return World(broker=broker, market=market, pool=pool, actions=actions, pos_keys=keys, rows=rows, data=data)


@native
def prices(d):
    return pd.Series(d, dtype=object)


# ------------------------------------------------------------------------------------------------ Aave
from . import demeter_models  # noqa: F401  (installs models)
from demeter.aave import AaveV3Market
from demeter.aave._typing import SupplyInfo, BorrowInfo, AaveMarketStatus

AAVE_RP_CSV = "/repo/tests/aave_risk_parameters/Aave Protocol Parameter polygon.csv"
AAVE_COLS = ("liquidity_rate", "stable_borrow_rate", "variable_borrow_rate", "liquidity_index", "variable_borrow_index")


@native
def aave_status(S, names, tag):
    """one data row: MultiIndex (token, column) -> symbol; indices > 0, rates >= 0"""
    d = {}
    for n in names:
        d[(n, "liquidity_rate")] = S.dec(f"{tag}{n}_liquidity_rate", 0, 1)
        d[(n, "stable_borrow_rate")] = S.dec(f"{tag}{n}_stable_borrow_rate", 0, 1)
        d[(n, "variable_borrow_rate")] = S.dec(f"{tag}{n}_variable_borrow_rate", 0, 1)
        d[(n, "liquidity_index")] = S.dec(f"{tag}{n}_liquidity_index", 1, 100)
        d[(n, "variable_borrow_index")] = S.dec(f"{tag}{n}_variable_borrow_index", 1, 100)
    return pd.Series(d, dtype=object)


@native
def aave_world(S, tokens=("TKA", "TKB"), supplies=("TKA",), borrows=("TKB",), tag="", wallet=None):
    """Broker + AaveV3Market at bar T0; which tokens are supplied / borrowed is the (concrete) shape, every number,
    collateral flag and risk parameter is symbolic.  Well-formedness of the inputs (the 'type invariant' of Aave data):
    prices > 0, indices >= 1, 0 <= LTV <= LT <= 1, bonus >= 0, present positions have base_amount > 0."""
    import os
    repo = os.environ.get("DEMETER_REPO", "/repo")
    toks = {n: TokenInfo(n, 18) for n in tokens}
    actions = []
    broker = Broker(record_action_callback=actions.append)
    market = AaveV3Market(MarketInfo("aave", MarketTypeEnum.aave_v3),
                          os.path.join(repo, "tests/aave_risk_parameters/Aave Protocol Parameter polygon.csv"), list(toks.values()))
    rp = {}
    for n in tokens:
        ltv = S.dec(f"{tag}{n}_LTV", 0, 1)
        lt = S.dec(f"{tag}{n}_LT", ltv, 1)          # LTV <= liquidation threshold <= 1
        rp[n] = {"usageAsCollateralEnabled": S.bool(f"{tag}{n}_canCollateral"), "baseLTVasCollateral": ltv,
                 "reserveLiquidationThreshold": lt, "reserveLiquidationBonus": S.dec(f"{tag}{n}_bonus", 0, 1),
                 "borrowingEnabled": S.bool(f"{tag}{n}_canBorrow")}
    market._risk_parameters = pd.DataFrame.from_dict(rp, orient="index").astype(object)
    market._market_status = AaveMarketStatus(T0, aave_status(S, tokens, tag))
    market._price_status = pd.Series({n: S.dec(f"{tag}{n}_price", 0, 10 ** 6, lo_strict=True) for n in tokens}, dtype=object)
    broker.add_market(market)
    for n in (wallet if wallet is not None else tokens):
        broker._assets[toks[n]] = Asset(toks[n], S.dec(f"{tag}wallet_{n}", 0, 10 ** 12))
    for n in supplies:
        market._supplies[toks[n]] = SupplyInfo(S.dec(f"{tag}supply_{n}_base", 0, 10 ** 12, lo_strict=True),
                                               S.bool(f"{tag}supply_{n}_collateral", only_if=rp[n]["usageAsCollateralEnabled"]),
                                               S.dec(f"{tag}supply_{n}_begin_index", 1, 100))
    for n in borrows:
        market._borrows[toks[n]] = BorrowInfo(S.dec(f"{tag}borrow_{n}_base", 0, 10 ** 12, lo_strict=True), S.dec(f"{tag}borrow_{n}_begin_index", 1, 100))
    return World(broker=broker, market=market, tokens=toks, actions=actions, rp=rp)


# ------------------------------------------------------------------------------------------------ Deribit options
from demeter.deribit import DeribitOptionMarket, DeribitMarketStatus, OptionPosition, OptionKind

H0 = pd.Timestamp("2024-01-01 06:00:00")       # on the hour: the option market is open
H0_1 = pd.Timestamp("2024-01-01 06:01:00")     # off the hour: closed
H1 = pd.Timestamp("2024-01-01 07:00:00")
DERIBIT_COLS = ("state", "type", "strike_price", "expiry_time", "mark_price", "underlying_price", "delta", "gamma", "asks", "bids")


@native
def deribit_book(S, tag, mark, n_asks, n_bids):
    """order book sorted best-first with bids <= mark <= asks (precondition stated in C03/C15), sizes >= 0; floats as in the data"""
    asks, bids = [], []
    prev = mark
    for i in range(n_asks):
        p = S.flt(f"{tag}ask{i}_price", prev, 10, lo_strict=(i > 0))
        asks.append([p, S.flt(f"{tag}ask{i}_size", 0, 10 ** 6)])
        prev = p
    prev = mark
    for i in range(n_bids):
        p = S.flt(f"{tag}bid{i}_price", 0, prev, lo_strict=True, hi_strict=(i > 0))
        bids.append([p, S.flt(f"{tag}bid{i}_size", 0, 10 ** 6)])
        prev = p
    return asks, bids


@native
def deribit_world(S, instruments=(("I0", "CALL", "open"),), n_asks=2, n_bids=2, held=("I0",), ts=H0, expiry=None, tag=""):
    """Broker + DeribitOptionMarket at bar `ts`; which instruments exist / are held, their kinds, states, book depths and expiry
    times are the (concrete) shape; every price, size, amount, strike, cash and wallet balance is symbolic."""
    token = DeribitOptionMarket.ETH
    actions = []
    broker = Broker(record_action_callback=actions.append)
    market = DeribitOptionMarket(MarketInfo("opt", MarketTypeEnum.deribit_option), token)
    broker.add_market(market)
    expiry = expiry or {}
    rows = {}
    for name, kind, state in instruments:
        mark = S.flt(f"{tag}{name}_mark", 0, 5, lo_strict=True)
        asks, bids = deribit_book(S, f"{tag}{name}_", mark, n_asks, n_bids)
        rows[name] = {"state": state, "type": kind, "strike_price": S.int(f"{tag}{name}_strike", 1, 10 ** 6),
                      "expiry_time": expiry.get(name, H1), "mark_price": mark,
                      "underlying_price": S.flt(f"{tag}underlying", 1, 10 ** 6), "delta": S.flt(f"{tag}{name}_delta", -1, 1),
                      "gamma": S.flt(f"{tag}{name}_gamma", 0, 1), "asks": asks, "bids": bids}
    data = pd.DataFrame.from_dict(rows, orient="index", columns=list(DERIBIT_COLS)).astype(object)
    # the input frame: (time, instrument) -> the same cells (so that a write into a shared cell is visible as a frame violation)
    frame_rows = {(ts.floor("1h"), n): r for n, r in rows.items()}
    market._data = pd.DataFrame.from_dict(frame_rows, orient="index", columns=list(DERIBIT_COLS)).astype(object)
    market._data.index = pd.MultiIndex.from_tuples(list(frame_rows.keys()))
    market._market_status = DeribitMarketStatus(ts, data)
    market._price_status = pd.Series({token.name: S.dec(f"{tag}eth_price", 0, 10 ** 6, lo_strict=True)}, dtype=object)
    market.is_open = ts == ts.floor("1h")
    market.balance = S.dec(f"{tag}cash", 0, 10 ** 9)
    broker._assets[token] = Asset(token, S.dec(f"{tag}wallet_eth", 0, 10 ** 9))
    kinds = {n: k for n, k, _ in instruments}
    for name in held:
        market.positions[name] = OptionPosition(
            instrument_name=name, expiry_time=expiry.get(name, H1), strike_price=rows[name]["strike_price"] if name in rows else S.int(f"{tag}{name}_strike", 1, 10 ** 6),
            type=OptionKind(kinds.get(name, "CALL")), amount=S.dec(f"{tag}pos_{name}_amount", 0, 10 ** 6, lo_strict=True),
            avg_buy_price=S.dec(f"{tag}pos_{name}_avg_buy", 0, 10), buy_amount=S.dec(f"{tag}pos_{name}_bought", 0, 10 ** 7),
            avg_sell_price=S.dec(f"{tag}pos_{name}_avg_sell", 0, 10), sell_amount=S.dec(f"{tag}pos_{name}_sold", 0, 10 ** 7))
    return World(broker=broker, market=market, token=token, actions=actions, rows=rows, data=data)


# ------------------------------------------------------------------------------------------------ GMX v1 (GLP)
from demeter.gmx import GmxMarket

GMX_TOKENS = {"WETH": TokenInfo("WETH", 18), "WAVAX": TokenInfo("WAVAX", 18), "USDC": TokenInfo("USDC", 6)}


@native
def gmx_world(S, tokens=("WETH", "WAVAX"), tag=""):
    """Broker + GmxMarket with an arbitrary pool state: GLP supply, AUM (30 decimals), prices (30 decimals), per-token USDG
    amounts and weights, total USDG, bar interval — all symbolic.  Well-formedness: supply > 0, AUM >= 10^12 (one USDG unit),
    prices > 0, weights >= 0 with a positive total, USDG amounts >= 0."""
    toks = [GMX_TOKENS[n] for n in tokens]
    actions = []
    broker = Broker(record_action_callback=actions.append)
    market = GmxMarket(MarketInfo("gmx", MarketTypeEnum.gmx_v1), toks)
    broker.add_market(market)
    d = {"glp": S.dec(f"{tag}glp_supply", 1, 10 ** 30), "aum": S.dec(f"{tag}aum", 10 ** 12, 10 ** 42),
         "glp_price": S.dec(f"{tag}glp_price", 0, 10 ** 6, lo_strict=True), "usdg": S.int(f"{tag}usdg_supply", 0, 10 ** 30),
         "interval": S.int(f"{tag}interval", 0, 10 ** 18)}
    for t in toks:
        n = t.name.lower()
        d[f"{n}_price"] = S.dec(f"{tag}{n}_price", 10 ** 24, 10 ** 37)
        d[f"{n}_usdg"] = S.int(f"{tag}{n}_usdg", 0, 10 ** 30)
        d[f"{n}_weight"] = S.int(f"{tag}{n}_weight", 0, 10 ** 6)
    if "wavax_price" not in d:
        d["wavax_price"] = S.dec(f"{tag}wavax_price", 10 ** 24, 10 ** 37)
    market._market_status = MarketStatus(T0, pd.Series(d, dtype=object))
    market._price_status = pd.Series({t.name: S.dec(f"{tag}{t.name}_usd", 0, 10 ** 7, lo_strict=True) for t in toks}, dtype=object)
    market.glp_amount = S.dec(f"{tag}glp_held", 0, 10 ** 12)
    market.reward = S.dec(f"{tag}reward", 0, 10 ** 12)
    for t in toks:
        broker._assets[t] = Asset(t, S.dec(f"{tag}wallet_{t.name}", 0, 10 ** 12))
    return World(broker=broker, market=market, tokens={t.name: t for t in toks}, actions=actions, data=d)


# ------------------------------------------------------------------------------------------------ GMX v2 (GM)
from demeter.gmx import GmxV2Market
from demeter.gmx._typing2 import GmxV2Pool, GmxV2MarketStatus
from demeter.gmx.gmx_v2 import GmxV2PoolStatus

GM_LONG, GM_SHORT = TokenInfo("WETH", 18), TokenInfo("USDC", 6)


@native
def gmx2_world(S, virtual=True, tag=""):
    """Broker + GmxV2Market with an arbitrary pool row (floats, idealised as reals): token amounts, virtual inventory (or none),
    pool value, GM supply, impact pool, prices.  Well-formedness: amounts >= 0, pool value > 0, supply > 0, prices > 0,
    at least one token in the pool."""
    actions = []
    broker = Broker(record_action_callback=actions.append)
    market = GmxV2Market(MarketInfo("gm", MarketTypeEnum.gmx_v2), GmxV2Pool(GM_LONG, GM_SHORT, GM_LONG))
    broker.add_market(market)
    d = {"longAmount": S.flt(f"{tag}longAmount", 0, 10 ** 9), "shortAmount": S.flt(f"{tag}shortAmount", 0, 10 ** 12),
         "virtualSwapInventoryLong": S.flt(f"{tag}virtualLong", 0, 10 ** 9) if virtual else None,
         "virtualSwapInventoryShort": S.flt(f"{tag}virtualShort", 0, 10 ** 12) if virtual else None,
         "poolValue": S.flt(f"{tag}poolValue", 0, 10 ** 13, lo_strict=True), "marketTokensSupply": S.flt(f"{tag}gmSupply", 0, 10 ** 13, lo_strict=True),
         "impactPoolAmount": S.flt(f"{tag}impactPool", 0, 10 ** 9), "longPrice": S.flt(f"{tag}longPrice", 0, 10 ** 6, lo_strict=True),
         "shortPrice": S.flt(f"{tag}shortPrice", 0, 10 ** 3, lo_strict=True), "indexPrice": S.flt(f"{tag}indexPrice", 0, 10 ** 6, lo_strict=True)}
    market._market_status = GmxV2MarketStatus(T0, pd.Series(d, dtype=object))
    market._price_status = pd.Series({"WETH": S.dec(f"{tag}WETH_usd", 0, 10 ** 6, lo_strict=True), "USDC": S.dec(f"{tag}USDC_usd", 0, 10 ** 3, lo_strict=True)}, dtype=object)
    market.amount = S.flt(f"{tag}gm_held", 0, 10 ** 12)
    broker._assets[GM_LONG] = Asset(GM_LONG, S.dec(f"{tag}wallet_WETH", 0, 10 ** 9))
    broker._assets[GM_SHORT] = Asset(GM_SHORT, S.dec(f"{tag}wallet_USDC", 0, 10 ** 12))
    return World(broker=broker, market=market, actions=actions, data=d, long=GM_LONG, short=GM_SHORT)


# ------------------------------------------------------------------------------------------------ Squeeth
from demeter.squeeth.market import SqueethMarket
from demeter.squeeth import VaultKey, Vault
from demeter.squeeth._typing import WETH as SQ_WETH, oSQTH as SQ_OSQTH
from demeter.uniswap import UniswapMarketStatus

SQ_LP = PositionInfo(-1200, 1200)      # the LP position used as vault collateral (ticks concrete: the amounts enter via contracts)


@native
def squeeth_world(S, vaults=(False,), lp_liquidity=True, tag=""):
    """Broker + oSQTH/WETH UniLpMarket (token0 = WETH = quote, as on mainnet) + SqueethMarket at bar T0 (not the timestamp-less
    test mode: TWAP prices come from get_twap_price).  vaults: one entry per vault, True = holds the LP position SQ_LP as collateral.
    Every amount, price and the normalisation factor is symbolic."""
    actions = []
    broker = Broker(record_action_callback=actions.append)
    pool = UniV3Pool(SQ_WETH, SQ_OSQTH, 0.3, SQ_WETH)
    uni = UniLpMarket(MarketInfo("uni"), pool)
    sq = SqueethMarket(MarketInfo("sqth", MarketTypeEnum.squeeth), uni)
    broker.add_market(uni)
    broker.add_market(sq)
    uni._market_status = UniswapMarketStatus(T0, pd.Series({"inAmount0": 0, "inAmount1": 0, "currentLiquidity": S.int(f"{tag}pool_liquidity", 1, 10 ** 30),
                                                              "closeTick": S.int(f"{tag}closeTick", -887272, 887272),
                                                              "price": S.dec(f"{tag}pool_price_osqth_in_eth", 0, 10, lo_strict=True)}, dtype=object))
    sq._market_status = MarketStatus(T0, pd.Series({"norm_factor": S.dec(f"{tag}norm_factor", 0, 1, lo_strict=True),
                                                    "WETH": S.dec(f"{tag}eth_price", 0, 10 ** 6, lo_strict=True),
                                                    "OSQTH": S.dec(f"{tag}osqth_price_in_eth", 0, 10, lo_strict=True)}, dtype=object))
    # the trailing window of the input frame (read only by the real get_twap_price, i.e. in native evaluation)
    sq._data = pd.DataFrame.from_dict({T0 - pd.Timedelta(minutes=6 - i): {"norm_factor": sq._market_status.data["norm_factor"],
                                                                         "WETH": S.dec(f"{tag}eth_price_m{i}", 100, 10 ** 4) if i < 6 else sq._market_status.data["WETH"],
                                                                         "OSQTH": S.dec(f"{tag}osqth_price_m{i}", Decimal("0.01"), 1) if i < 6 else sq._market_status.data["OSQTH"]}
                                       for i in range(7)}, orient="index").astype(object)
    sq._price_status = pd.Series({"WETH": sq._market_status.data["WETH"], "OSQTH": S.dec(f"{tag}osqth_usd", 0, 10 ** 6, lo_strict=True)}, dtype=object)
    uni._price_status = sq._price_status
    broker._assets[SQ_WETH] = Asset(SQ_WETH, S.dec(f"{tag}wallet_weth", 0, 10 ** 9))
    broker._assets[SQ_OSQTH] = Asset(SQ_OSQTH, S.dec(f"{tag}wallet_osqth", 0, 10 ** 9))
    keys = []
    for i, has_lp in enumerate(vaults):
        vk = VaultKey(i + 1)
        keys.append(vk)
        sq.vault[vk] = Vault(i + 1, S.dec(f"{tag}v{i}_collateral", 0, 10 ** 9), S.dec(f"{tag}v{i}_short", 0, 10 ** 9), SQ_LP if has_lp else None)
        sq._max_vault_id = i + 1
        if has_lp:
            uni._positions[SQ_LP] = Position(S.dec(f"{tag}lp_pending_weth", 0, 10 ** 6), S.dec(f"{tag}lp_pending_osqth", 0, 10 ** 6),
                                             S.int(f"{tag}lp_liquidity", 1 if lp_liquidity else 0, 10 ** 30), Decimal(1), Decimal(2), Decimal(1), True)
    return World(broker=broker, market=sq, uni=uni, actions=actions, keys=keys, weth=SQ_WETH, osqth=SQ_OSQTH)


@native
def uni_at_bar(w):
    """put the uniswap market of uni_world on bar T0 (status = a copy of the frame row, as set_market_status does)"""
    w.market._market_status = UniswapMarketStatus(T0, w.data.loc[T0].copy())
    w.market._price_status = pd.Series({w.pool.token0.name: Decimal(1), w.pool.token1.name: Decimal(1)}, dtype=object)
    w.market.last_tick = w.data.at[T0, "closeTick"]
    return w
