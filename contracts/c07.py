"""C07 — liquidity / amount math (demeter/uniswap/liquitidy_math.py, core.py).

Functions under contract (interpreted from their real source): get_liquidity, get_amounts, get_amount0,
get_amount1, get_liquidity_for_amount0/1, mul_div, to_wei, V3CoreLib.new_position / close_position /
get_token_amounts.  get_sqrt_ratio_at_tick is used by its contract (common.sqrt_ratio_contract; its own
obligations are discharged under C06).
"""
from decimal import Decimal
from pyvc.api import proof, native, FnContract, exact
from demeter.uniswap import liquitidy_math as lm
from demeter.uniswap.core import V3CoreLib
from demeter.uniswap._typing import UniV3Pool, PositionInfo
from demeter import TokenInfo
from .common import MIN_TICK, MAX_TICK, MIN_SQRT, MAX_SQRT, Q96, SQRT_CONTRACT

DECIMALS_QUICK = [{"d0": 6, "d1": 18}, {"d0": 18, "d1": 6}, {"d0": 8, "d1": 18}, {"d0": "sym", "d1": "sym"}]
DECIMALS_ALL = [{"d0": a, "d1": b} for a in (6, 8, 18) for b in (6, 8, 18)] + [{"d0": "sym", "d1": "sym"}]
SHAPES = {"quick": DECIMALS_QUICK, "thorough": DECIMALS_ALL}
MAX_AMOUNT = 10 ** 12     # the statement's range "amounts from 0 to 1e12 tokens"; the proofs do not depend on it


def _decimals(S):
    d0 = S.shape["d0"]
    d1 = S.shape["d1"]
    if d0 == "sym":
        d0 = S.int("decimal0", 0, 36)
    if d1 == "sym":
        d1 = S.int("decimal1", 0, 36)
    return d0, d1


def _price_and_range(S):
    sp = S.int("sqrt_price_x96", MIN_SQRT, MAX_SQRT)
    tA = S.int("tickA", MIN_TICK, MAX_TICK)
    tB = S.int("tickB", MIN_TICK, MAX_TICK)
    S.assume(tA < tB)
    return sp, tA, tB


@proof("C07", "get_liquidity/no-overspend", strength="U", contracts=SQRT_CONTRACT, shapes=SHAPES,
       covers=["below", "inside", "above"])
def po_no_overspend(S):
    """The liquidity minted never requires more than either offered amount; everything is non-negative."""
    sp, tA, tB = _price_and_range(S)
    d0, d1 = _decimals(S)
    a0 = S.dec("amount0", 0, MAX_AMOUNT)
    a1 = S.dec("amount1", 0, MAX_AMOUNT)
    L = lm.get_liquidity(sp, tA, tB, a0, a1, d0, d1)
    u0, u1 = lm.get_amounts(sp, tA, tB, L, d0, d1)
    S.check("liquidity-nonneg", L >= 0)
    S.check("used0<=offered0", S.le(u0, a0))
    S.check("used1<=offered1", S.le(u1, a1))
    S.check("used0-nonneg", u0 >= 0)
    S.check("used1-nonneg", u1 >= 0)
    sA = lm.get_sqrt_ratio_at_tick(tA)
    sB = lm.get_sqrt_ratio_at_tick(tB)
    if sp <= sA:
        S.cover("below")
    elif sp < sB:
        S.cover("inside")
    else:
        S.cover("above")


# ---- callee contracts of the two LiquidityAmounts helpers (proved below, used by get_liquidity/maximal)
def liq0_requires(sqrtA, sqrtB, amount):
    return {"positive-distinct-prices": sqrtA > 0 and sqrtB > 0 and sqrtA != sqrtB, "amount-nonneg": amount >= 0}


def liq0_ensures(sqrtA, sqrtB, amount, result):
    lo = sqrtA if sqrtA < sqrtB else sqrtB
    hi = sqrtB if sqrtA < sqrtB else sqrtA
    real = exact(amount) * lo * hi / Q96 / (hi - lo)
    return {"nonneg": result >= 0, "not-above-real": result <= real,
            "short-by-at-most-1+amount/span": real - result <= 1 + exact(amount) / (hi - lo)}


def liq1_ensures(sqrtA, sqrtB, amount, result):
    lo = sqrtA if sqrtA < sqrtB else sqrtB
    hi = sqrtB if sqrtA < sqrtB else sqrtA
    real = exact(amount) * Q96 / (hi - lo)
    return {"nonneg": result >= 0, "not-above-real": result <= real, "short-by-less-than-1": real - result < 1}


LIQ_CONTRACTS = dict(SQRT_CONTRACT)
LIQ_CONTRACTS[lm.get_liquidity_for_amount0] = FnContract(lm.get_liquidity_for_amount0, liq0_requires, liq0_ensures, "int")
LIQ_CONTRACTS[lm.get_liquidity_for_amount1] = FnContract(lm.get_liquidity_for_amount1, liq0_requires, liq1_ensures, "int")


@proof("C07", "get_liquidity_for_amount0/contract", strength="U")
def po_liq0(S):
    a = S.int("sqrtA", 1, MAX_SQRT)
    b = S.int("sqrtB", 1, MAX_SQRT)
    amount = S.int("amount_wei", 0, 10 ** 40)
    S.assume_all(liq0_requires(a, b, amount))
    S.check_all("ensures:", liq0_ensures(a, b, amount, lm.get_liquidity_for_amount0(a, b, amount)))


@proof("C07", "get_liquidity_for_amount1/contract", strength="U")
def po_liq1(S):
    a = S.int("sqrtA", 1, MAX_SQRT)
    b = S.int("sqrtB", 1, MAX_SQRT)
    amount = S.int("amount_wei", 0, 10 ** 40)
    S.assume_all(liq0_requires(a, b, amount))
    S.check_all("ensures:", liq1_ensures(a, b, amount, lm.get_liquidity_for_amount1(a, b, amount)))


@proof("C07", "get_liquidity/maximal", strength="U", contracts=LIQ_CONTRACTS, shapes=SHAPES)
def po_maximal(S):
    """L is the largest admissible liquidity up to the integer rounding of LiquidityAmounts:
       L* - L <= 1 + wei0 / (sqrtB - sqrtLow), L* the real-valued maximum for the (integer) wei amounts."""
    sp, tA, tB = _price_and_range(S)
    d0, d1 = _decimals(S)
    a0 = S.dec("amount0", 0, MAX_AMOUNT)
    a1 = S.dec("amount1", 0, MAX_AMOUNT)
    L = lm.get_liquidity(sp, tA, tB, a0, a1, d0, d1)
    sA = lm.get_sqrt_ratio_at_tick(tA)
    sB = lm.get_sqrt_ratio_at_tick(tB)
    w0 = exact(lm.to_wei(a0, d0))
    w1 = exact(lm.to_wei(a1, d1))
    if sp <= sA:
        lstar = w0 * sA * sB / Q96 / (sB - sA)
        S.check("maximal/below-range", S.le(lstar - L, 1 + w0 / (sB - sA)))
        S.check("not-above-real-max/below-range", S.le(L, lstar))
    elif sp < sB:
        l0 = w0 * sp * sB / Q96 / (sB - sp)
        l1 = w1 * Q96 / (sp - sA)
        lstar = l0 if l0 < l1 else l1
        S.check("maximal/in-range", S.le(lstar - L, 1 + w0 / (sB - sp)))
        S.check("not-above-real-max/in-range", S.le(L, lstar))
    else:
        lstar = w1 * Q96 / (sB - sA)
        S.check("maximal/above-range", S.le(lstar - L, 1))
        S.check("not-above-real-max/above-range", S.le(L, lstar))


@proof("C07", "get_amounts/one-sided-and-closed-form", strength="U", contracts=SQRT_CONTRACT, shapes=SHAPES,
       covers=["on-lower-boundary", "on-upper-boundary"])
def po_one_sided(S):
    """Only token0 below the range, only token1 above it, both inside; equal to the closed-form v3 formulas;
       non-negative."""
    sp, tA, tB = _price_and_range(S)
    d0, d1 = _decimals(S)
    L = S.int("liquidity", 0, 10 ** 40)
    u0, u1 = lm.get_amounts(sp, tA, tB, L, d0, d1)
    sA = lm.get_sqrt_ratio_at_tick(tA)
    sB = lm.get_sqrt_ratio_at_tick(tB)
    sc = sA if sp < sA else (sB if sp > sB else sp)          # price clamped into the range
    S.check("closed-form/amount0", S.eq(u0, exact(L) * Q96 * (sB - sc) / sB / sc / 10 ** d0))
    S.check("closed-form/amount1", S.eq(u1, exact(L) * (sc - sA) / Q96 / 10 ** d1))
    S.check("amount0-nonneg", u0 >= 0)
    S.check("amount1-nonneg", u1 >= 0)
    if sp <= sA:
        S.check("below-or-on-lower-bound=>no-token1", u1 == 0)
        if sp == sA:
            S.cover("on-lower-boundary")
    if sp >= sB:
        S.check("above-or-on-upper-bound=>no-token0", u0 == 0)
        if sp == sB:
            S.cover("on-upper-boundary")
    if sA < sp and sp < sB and L > 0:
        S.check("inside=>token0-held", u0 > 0)
        S.check("inside=>token1-held", u1 > 0)


@proof("C07", "get_amounts/monotone-in-price", strength="U", contracts=SQRT_CONTRACT, shapes=SHAPES)
def po_monotone(S):
    """token0 is non-increasing and token1 non-decreasing in the price, across region boundaries."""
    sp, tA, tB = _price_and_range(S)
    sp2 = S.int("sqrt_price_x96_higher", MIN_SQRT, MAX_SQRT)
    S.assume(sp <= sp2)
    d0, d1 = _decimals(S)
    L = S.int("liquidity", 0, 10 ** 40)
    a0, a1 = lm.get_amounts(sp, tA, tB, L, d0, d1)
    b0, b1 = lm.get_amounts(sp2, tA, tB, L, d0, d1)
    S.check("token0-non-increasing", S.le(b0, a0))
    S.check("token1-non-decreasing", S.le(a1, b1))


@proof("C07", "get_amounts/proportional-to-liquidity", strength="U", contracts=SQRT_CONTRACT, shapes=SHAPES)
def po_proportional(S):
    sp, tA, tB = _price_and_range(S)
    d0, d1 = _decimals(S)
    L = S.int("liquidity", 0, 10 ** 40)
    k = S.int("k", 0, 10 ** 6)
    a0, a1 = lm.get_amounts(sp, tA, tB, L, d0, d1)
    b0, b1 = lm.get_amounts(sp, tA, tB, k * L, d0, d1)
    S.check("amount0(k*L)==k*amount0(L)", S.eq(b0, k * a0))
    S.check("amount1(k*L)==k*amount1(L)", S.eq(b1, k * a1))


@proof("C07", "get_liquidity,get_amounts/order-of-the-two-ticks-is-immaterial", strength="U", contracts=SQRT_CONTRACT, shapes=SHAPES)
def po_tick_order(S):
    """Both functions accept the range as an unordered pair of ticks (they order the bounds themselves): every other obligation, stated
       for tickA < tickB, therefore holds for a reversed pair too."""
    sp, tA, tB = _price_and_range(S)
    d0, d1 = _decimals(S)
    a0 = S.dec("amount0", 0, MAX_AMOUNT)
    a1 = S.dec("amount1", 0, MAX_AMOUNT)
    L = S.int("liquidity", 0, 10 ** 40)
    S.check("get_liquidity(tB,tA)==get_liquidity(tA,tB)", lm.get_liquidity(sp, tB, tA, a0, a1, d0, d1) == lm.get_liquidity(sp, tA, tB, a0, a1, d0, d1))
    x0, x1 = lm.get_amounts(sp, tA, tB, L, d0, d1)
    y0, y1 = lm.get_amounts(sp, tB, tA, L, d0, d1)
    S.check("get_amounts(tB,tA)==get_amounts(tA,tB)", S.eq(x0, y0) and S.eq(x1, y1))


@proof("C07", "get_amounts/linear-in-liquidity", strength="U", contracts=SQRT_CONTRACT, shapes=SHAPES)
def po_linear(S):
    """amounts(L) == L x amounts(1) and amounts(L1 + L2) == amounts(L1) + amounts(L2): the form in which callers (value conservation
       when PART of a position is removed, C03) use proportionality"""
    sp, tA, tB = _price_and_range(S)
    d0, d1 = _decimals(S)
    L = S.int("liquidity", 0, 10 ** 40)
    L2 = S.int("liquidity_2", 0, 10 ** 40)
    u0, u1 = lm.get_amounts(sp, tA, tB, 1, d0, d1)
    a0, a1 = lm.get_amounts(sp, tA, tB, L, d0, d1)
    b0, b1 = lm.get_amounts(sp, tA, tB, L2, d0, d1)
    c0, c1 = lm.get_amounts(sp, tA, tB, L + L2, d0, d1)
    S.check("amount0(L)==L*amount0(1)", S.eq(a0, L * u0))
    S.check("amount1(L)==L*amount1(1)", S.eq(a1, L * u1))
    S.check("amount0(L1+L2)==amount0(L1)+amount0(L2)", S.eq(c0, a0 + b0))
    S.check("amount1(L1+L2)==amount1(L1)+amount1(L2)", S.eq(c1, a1 + b1))


@native
def _pool(d0, d1, is_token0_quote):
    t0 = TokenInfo("TKA", d0)
    t1 = TokenInfo("TKB", d1)
    return UniV3Pool(t0, t1, 0.05, t0 if is_token0_quote else t1)


POOL_SHAPES = {"quick": [{"d0": 6, "d1": 18, "q0": True}, {"d0": 18, "d1": 6, "q0": False}],
               "thorough": [{"d0": a, "d1": b, "q0": q} for a in (6, 8, 18) for b in (6, 8, 18) for q in (True, False)]}


@proof("C07", "V3CoreLib/deposit-then-withdraw-at-same-price", strength="U", contracts=SQRT_CONTRACT, shapes=POOL_SHAPES)
def po_roundtrip(S):
    """Withdrawing at the deposit price returns exactly the deposited (used) amounts; the position never takes
       more than offered."""
    sp, tA, tB = _price_and_range(S)
    pool = _pool(S.shape["d0"], S.shape["d1"], S.shape["q0"])
    a0 = S.dec("amount0", 0, MAX_AMOUNT)
    a1 = S.dec("amount1", 0, MAX_AMOUNT)
    u0, u1, liq, pos = V3CoreLib.new_position(pool, a0, a1, tA, tB, sp)
    S.check("position-keys-the-given-ticks", pos.lower_tick == tA and pos.upper_tick == tB)
    S.check("used0<=offered0", S.le(u0, a0))
    S.check("used1<=offered1", S.le(u1, a1))
    w0, w1 = V3CoreLib.close_position(pool, pos, liq, sp)
    S.check("withdraw0==deposit0", S.eq(w0, u0))
    S.check("withdraw1==deposit1", S.eq(w1, u1))
    g0, g1 = V3CoreLib.get_token_amounts(pool, pos, sp, liq)
    S.check("get_token_amounts0==deposit0", S.eq(g0, u0))
    S.check("get_token_amounts1==deposit1", S.eq(g1, u1))


# ------------------------------------------------------------------------------------------------ supplementary (not part of the U claim)
def _uni_contracts_for_c07():
    from .c14 import get_amounts_contract, sqrt_of_price_contract
    import demeter.uniswap.core as core
    import demeter.uniswap.market as umarket
    from .c04 import get_liquidity_contract
    return {core.get_amounts: get_amounts_contract, core.get_liquidity: get_liquidity_contract, umarket.base_unit_price_to_sqrt_price_x96: sqrt_of_price_contract}


@proof("C07", "supplementary/callee-contract-of-get_sqrt_ratio_at_tick:spot-check-around-parity-and-at-the-extremes", strength="X",
       shapes=[{"lo": -2048, "hi": 2048}, {"lo": -887272, "hi": -887272 + 256}, {"lo": 887272 - 256, "hi": 887272}],
       note="the U obligations of this file use get_sqrt_ratio_at_tick through its contract, whose own obligations (all 1,774,545 ticks) are C06's; "
            "this spot check re-evaluates the real function on the ticks where a range boundary or a pool price most plausibly sits exactly ON a tick — "
            "around parity (tick 0, f = 2^96) and at both ends — with C06's oracle, so that a change of the tick function shows up under C07 as well")
def x_tick_spot_check(ctx):
    from .c06 import _oracle, _check_tick
    mpmath, base = _oracle()
    out = {k: {"instances": 0, "failures": [], "undecided": 0} for k in
           ("closeness-to-sqrt(1.0001^t)*2^96", "range[MIN_SQRT,MAX_SQRT]", "strictly-increasing", "boundary-values")}
    if ctx.get("replay"):
        t = int(ctx["replay"]["tick"])
        _check_tick(t, mpmath, base, out, lm.get_sqrt_ratio_at_tick(t - 1) if t > MIN_TICK else None)
        return out
    lo, hi = ctx["shape"]["lo"], ctx["shape"]["hi"]
    prev = lm.get_sqrt_ratio_at_tick(lo - 1) if lo > MIN_TICK else None
    for t in range(lo, hi + 1):
        prev = _check_tick(t, mpmath, base, out, prev)
        for c in out.values():
            del c["failures"][5:]
    return out


@proof("C07", "supplementary/market:add-and-remove-use-the-CURRENT-status-price(also-after-a-re-pricing-with-the-same-timestamp)", strength="S",
       shapes={"quick": [{"q0": True}, {"q0": False}], "thorough": [{"q0": True}, {"q0": False}]}, contracts=_uni_contracts_for_c07())
def po_market_current_price(S):
    """UniLpMarket._add_liquidity_by_tick / remove_liquidity derive the sqrt price from the status price in force when they are called:
       after an operation at one price and a new status (same timestamp, as when a market is driven by hand) removal pays the amounts of
       the position at the NEW price — get_amounts / the price conversion enter as uninterpreted functions (contracts of C06 / this file)."""
    from .worlds import uni_world, uni_at_bar, series, T0
    from demeter.uniswap import UniswapMarketStatus
    from demeter.uniswap import helper as uh
    from .common import REJECT
    w = uni_at_bar(uni_world(S, 6, 18, S.shape["q0"], 1, 0.05))
    m = w.market
    try:
        m.add_liquidity_by_tick(-600, 600, S.dec("base_max", 0, 10 ** 9), S.dec("quote_max", 0, 10 ** 9), -1, -1, False)     # fills whatever is memoised per bar
    except REJECT:
        pass
    row2 = dict(w.rows[T0])
    row2["price"] = S.dec("re_priced", 0, None, lo_strict=True)
    m.set_market_status(UniswapMarketStatus(T0, series(row2)), m._price_status)
    key = w.pos_keys[0]
    L = m._positions[key].liquidity
    s2 = uh.base_unit_price_to_sqrt_price_x96(row2["price"], w.pool.token0.decimal, w.pool.token1.decimal, w.pool.is_token0_quote)
    e0, e1 = V3CoreLib.get_token_amounts(w.pool, key, s2, L)
    p0, p1 = m._positions[key].pending_amount0, m._positions[key].pending_amount1
    m.remove_liquidity(key, None, False)
    S.check("removal-pays-the-position's-amounts-at-the-current-price:token0", S.eq(m._positions[key].pending_amount0, p0 + e0))
    S.check("removal-pays-the-position's-amounts-at-the-current-price:token1", S.eq(m._positions[key].pending_amount1, p1 + e1))
