"""C02 — no look-ahead; inputs stay intact.

The 2-safety statement is decided through FRAMES AND DEPENDENCIES of the per-bar code, market by market:
  reads     set_market_status(bar t) yields a status whose every cell is syntactically the cell of the input row at t (for the
            hourly option market: at floor_1h(t)) — every frame cell is a distinct symbol, so a status built from another row
            (the next bar's, say) cannot pass; the Squeeth TWAP window ending at the current bar is C14's bounded obligation;
  writes    set_market_status, update() and the state-changing operations leave the input frame structurally identical (cells
            compared by identity of the symbols / list objects they hold), and mutating the handed-out status (own liquidity
            added to the Uniswap row, fills written to the visible book) does not write through to the frame;
  shift     _add_statistic_column: price[i] is a function of closeTick[i-1] (openTick[0] for the first bar), never of bar i
            or later — evaluated natively (pandas shift), bounded.
The end-to-end claim (two histories sharing k bars give identical account history, actions and snapshots for bars 0..k; the
frames are unchanged by a run; a re-run reproduces the result) is evaluated natively through the real Actuator on the fixture
— a bounded stand-in.  Strategy code is out of scope (it is handed the frames by design)."""
from decimal import Decimal
import z3
from pyvc.api import proof, native, exact, spec
from pyvc.sym import SV
from .common import REJECT
from .aave_common import dump, AAVE_CONTRACTS, add_next_bar
from .worlds import (uni_world, aave_world, deribit_world, gmx_world, gmx2_world, squeeth_world, T0, T1, H0, H0_1, H1, frame, series, prices, World)
from .c14 import SQ_CONTRACTS
from .c04 import UNI_CONTRACTS
import pandas as pd


@native
def symbols_of(x):
    """names of all symbols occurring in a dumped structure"""
    out = set()

    def walk(v):
        if isinstance(v, SV):
            stack = [v.t]
            while stack:
                t = stack.pop()
                if z3.is_const(t) and t.decl().kind() == z3.Z3_OP_UNINTERPRETED:
                    out.add(t.decl().name())
                stack.extend(t.children())
        elif isinstance(v, dict):
            for a in v.values():
                walk(a)
        elif isinstance(v, (list, tuple)):
            for a in v:
                walk(a)
    walk(x)
    return sorted(out)


@native
def only_prefixed(names, prefixes):
    return [n for n in names if not any(n.startswith(p) for p in prefixes)]


@native
def three_rows(S, cols, kinds, index=(T0, T1, pd.Timestamp("2024-01-01 00:02:00")), tags=("r0_", "r1_", "r2_")):
    rows = {}
    for ts, tag in zip(index, tags):
        rows[ts] = {c: (S.int(tag + c, *kinds[c][1:]) if kinds[c][0] == "int" else S.dec(tag + c, *kinds[c][1:])) for c in cols}
    return frame(rows)


# ------------------------------------------------------------------------------------------------ Uniswap
@proof("C02", "uniswap/status-is-the-current-row;frame-intact", strength="S", shapes={"quick": [{"npos": 1}, {"npos": 0}], "thorough": [{"npos": 2}, {"npos": 1}, {"npos": 0}]},
       contracts=UNI_CONTRACTS)
def po_uni(S):
    from demeter.uniswap import UniswapMarketStatus
    w = uni_world(S, 6, 18, True, S.shape["npos"], 0.05)          # frame rows T0 (r0_*) and T1 (r1_*)
    m = w.market
    f0 = dump(w.data)
    m.set_market_status(UniswapMarketStatus(T0, None), None)
    S.check("status-of-bar-0-depends-only-on-row-0(row-1-is-its-future)", len(only_prefixed(symbols_of(dump(m._market_status.data)), ("r0_", "pos"))) == 0)
    m.set_market_status(UniswapMarketStatus(T1, None), None)        # the bar under test; T0 is its past
    st = dump(m._market_status.data)
    S.check("status-depends-only-on-the-current-row(and-own-positions)", len(only_prefixed(symbols_of(st), ("r1_", "pos"))) == 0)
    S.check("fee-path-starts-at-the-previous-bar's-close", m.last_tick == w.rows[T0]["closeTick"])
    S.unchanged("frame-intact-after-set_market_status(own-liquidity-added-to-a-copy)", f0, dump(w.data))
    m.update()
    try:
        m.add_liquidity_by_tick(-600, 600, S.dec("b", 0, None), S.dec("q", 0, None), -1, -1, False)
        m.set_market_status(UniswapMarketStatus(T1, None), None)    # the second refresh of the bar
        m.update()
    except REJECT:
        pass
    S.unchanged("frame-intact-after-operations,refresh,update", f0, dump(w.data))


# ------------------------------------------------------------------------------------------------ Aave
@proof("C02", "aave/status-is-the-current-row;frame-intact", strength="S", shapes={"quick": [{"tokens": "AB", "supplies": "A", "borrows": "B", "op": "A"}], "thorough": [{"tokens": "AB", "supplies": "A", "borrows": "B", "op": "A"}, {"tokens": "AB", "supplies": "AB", "borrows": "B", "op": "B"}]},
       contracts=AAVE_CONTRACTS)
def po_aave(S):
    from demeter.aave._typing import AaveMarketStatus
    from .aave_common import world as aave_world_of
    w = aave_world_of(S)
    m = w.market
    pr = add_next_bar(S, w, "next_", True)           # frame rows T0 (current status), T1 ("next_*", the bar under test), T2 ("future_*")
    f0 = dump(m._data)
    m.set_market_status(AaveMarketStatus(T1, None), pr)
    S.check("status-depends-only-on-the-current-row", len(only_prefixed(symbols_of(dump(m._market_status.data)), ("next_",))) == 0)
    m.update()
    try:
        m.supply(w.op, S.dec("amount", 0, None), True)
        m.withdraw(w.op, S.dec("amount2", 0, None))
    except REJECT:
        pass
    S.unchanged("frame-intact", f0, dump(m._data))


# ------------------------------------------------------------------------------------------------ Deribit (hourly)
@proof("C02", "deribit/status-is-the-row-of-the-current-hour;frame-and-its-book-cells-intact", strength="S",
       shapes={"quick": [{"ts": "open"}, {"ts": "closed"}, {"ts": "late"}, {"ts": "gap"}], "thorough": [{"ts": "open"}, {"ts": "closed"}, {"ts": "late"}, {"ts": "half"}, {"ts": "gap"}, {"ts": "gap-late"}]})
def po_deribit(S):
    from demeter.deribit import DeribitMarketStatus
    w = deribit_world(S, (("I0", "CALL", "open"),), 2, 2, ("I0",), H0)
    m = w.market
    gap = S.shape["ts"].startswith("gap")
    add_next_hour(S, w, H1 + pd.Timedelta(hours=1) if gap else H1)       # "gap": the hour under test (07:00) has NO snapshot, the next one (08:00) has
    f0 = dump(frame_cells(m))
    # on the hour / one minute past / a quarter to the NEXT hour (whose rows are in the frame: the nearest hour is the future one) / half past
    ts = {"open": H0, "closed": H0_1, "late": H0 + pd.Timedelta(minutes=45), "half": H0 + pd.Timedelta(minutes=30),
          "gap": H1, "gap-late": H1 + pd.Timedelta(minutes=40)}[S.shape["ts"]]
    m.set_market_status(DeribitMarketStatus(ts, None), m._price_status)
    st = dump(frame_cells_of(m._market_status.data))
    S.check("status-depends-only-on-the-current-hour's-rows", len(only_prefixed(symbols_of(st), ("I0_", "underlying"))) == 0)
    if gap:
        S.check("missing-snapshot:nothing-of-a-LATER-hour-is-shown", len([n for n in symbols_of(st) if n.startswith("nx_")]) == 0)
    if ts == H0:
        try:
            m.estimate_cost("I0", S.dec("quote_amount", 0, 10 ** 6), "buy" if S.bool("quote_a_buy") else "sell")     # a quote must not consume the book
        except REJECT:
            pass
        S.unchanged("frame-and-order-book-cells-intact-after-a-quote(estimate_cost)", f0, dump(frame_cells(m)))
    cap = S.dec("max_mark_price_multiple", 1, 100) if S.bool("with_price_cap") else None     # the rarely used cap path filters the book first
    try:
        m.buy("I0", S.dec("amount", None, None), None, None, cap)
        m.sell("I0", S.dec("amount2", None, None), None, None, cap)
    except REJECT:
        pass
    m.update()
    S.unchanged("frame-and-order-book-cells-intact(fills-go-to-the-status-copy)", f0, dump(frame_cells(m)))


@native
def add_next_hour(S, w, at=H1):
    """append the rows of a LATER hour (fresh symbols 'nx_*') to the input frame"""
    from .worlds import deribit_book, DERIBIT_COLS
    m = w.market
    mark = S.flt("nx_I0_mark", 0, 5, lo_strict=True)
    asks, bids = deribit_book(S, "nx_I0_", mark, 2, 2)
    row = dict(w.rows["I0"])
    row.update({"mark_price": mark, "asks": asks, "bids": bids, "underlying_price": S.flt("nx_underlying", 1, 10 ** 6)})
    extra = pd.DataFrame.from_dict({(at, "I0"): row}, orient="index", columns=list(DERIBIT_COLS)).astype(object)
    extra.index = pd.MultiIndex.from_tuples([(at, "I0")])
    m._data = pd.concat([m._data, extra])


@native
def frame_cells(m):
    return frame_cells_of(m._data)


@native
def frame_cells_of(df):
    return {(str(i), c): ([list(lv) for lv in df.at[i, c]] if c in ("asks", "bids") else df.at[i, c]) for i in df.index for c in df.columns}


# ------------------------------------------------------------------------------------------------ GMX / Squeeth
@proof("C02", "gmx-v1,gmx-v2,squeeth/status-is-the-current-row;frame-intact", strength="S", shapes={"quick": [{"m": "gmx1"}, {"m": "gmx2"}, {"m": "squeeth"}]},
       contracts=SQ_CONTRACTS)
def po_rows(S):
    from demeter import MarketStatus
    kind = S.shape["m"]
    if kind == "gmx1":
        w = gmx_world(S)
        m = w.market
        cols = list(w.data.keys())
    elif kind == "gmx2":
        w = gmx2_world(S, True)
        m = w.market
        cols = list(w.data.keys())
    else:
        w = squeeth_world(S, (False,))
        m = w.market
        cols = ["norm_factor", "WETH", "OSQTH"]
    m._data = three_rows(S, cols, {c: ("dec", 1, 10 ** 30) for c in cols})
    f0 = dump(m._data)
    from demeter.gmx._typing2 import GmxV2MarketStatus
    st = GmxV2MarketStatus(T1, None) if kind == "gmx2" else MarketStatus(T1, None)
    m.set_market_status(st, None)
    S.check("status-depends-only-on-the-current-row", len(only_prefixed(symbols_of(dump(m._market_status.data)), ("r1_",))) == 0)
    try:
        m.update()
    except REJECT:
        pass
    S.unchanged("frame-intact", f0, dump(m._data))


# ------------------------------------------------------------------------------------------------ bounded, native
@proof("C02", "uniswap/_add_statistic_column:bar-price-is-the-previous-bar's-close(bounded)", strength="B", config={"bounded_samples": {"quick": 60, "thorough": 1000}})
def po_shift(S):
    from fixtures import backtest_fixture as fx
    from demeter.uniswap.helper import tick_to_base_unit_price
    n = S.int("bars", 2, 8)
    ticks = [S.int(f"close{i}", 190000, 210000) for i in range(8)][:n]
    open0 = S.int("open0", 190000, 210000)
    config, data, bk = fx.make(n)
    m = config.markets[0]
    df = fx.raw_frame(n, ticks, open0)
    m.add_statistic_column(df)
    pool = m.pool_info
    S.check("price[0]==price-of-openTick[0]", df["price"].iloc[0] == tick_to_base_unit_price(open0, pool.token0.decimal, pool.token1.decimal, pool.is_token0_quote))
    for i in range(1, n):
        S.check("price[i]==price-of-closeTick[i-1]", df["price"].iloc[i] == tick_to_base_unit_price(ticks[i - 1], pool.token0.decimal, pool.token1.decimal, pool.is_token0_quote))


@proof("C02", "actuator/prefix-determinism,frames-unchanged,re-run-reproduces(bounded)", strength="B", config={"bounded_samples": {"quick": 6, "thorough": 60}})
def po_prefix(S):
    """two histories that agree on bars 0..k: identical account history, actions and snapshots for bars 0..k; the input frames are
    unchanged by a run; running again on the same inputs reproduces the result"""
    from fixtures import backtest_fixture as fx
    n = S.int("bars", 3, 8)
    k = S.int("shared_prefix", 1, 7)
    S.assume(k < n)
    ticks_a = [S.int(f"a{i}", 199000, 201000) for i in range(8)][:n]
    ticks_b = ticks_a[:k + 1] + [S.int(f"b{i}", 199000, 201000) for i in range(8)][k + 1:n]
    vol = S.int("volume", 0, 10 ** 12)
    ra, fa0, fa1 = fx.run_history(ticks_a, vol)
    rb, _, _ = fx.run_history(ticks_b, vol)
    S.check("bars-0..k-identical(account-history,actions,snapshots)", ra[:k + 1] == rb[:k + 1])
    S.check("input-frames-unchanged-by-the-run", fa0 == fa1)
    ra2, _, _ = fx.run_history(ticks_a, vol)
    S.check("re-run-reproduces-the-result", ra2 == ra)


@proof("C02", "squeeth/TWAP-of-bar-k-does-not-depend-on-rows-after-k(bounded)", strength="B", config={"bounded_samples": {"quick": 120, "thorough": 2000}})
def po_twap_no_lookahead(S):
    """bounded stand-in (pandas time slicing is outside the interpreter): two price frames that agree on rows 0..k and differ afterwards
    give the same TWAP at bar k for both tokens — on one-minute grids, on grids coarser than the seven-minute window (a single row in the
    window) and at the very first bar"""
    from demeter import MarketStatus, MarketInfo, MarketTypeEnum
    from demeter.squeeth.market import SqueethMarket
    from demeter.squeeth._typing import WETH, oSQTH
    n = S.int("rows", 2, 12)
    k = S.int("now_index", 0, 10)
    S.assume(k < n - 1)
    step = [1, 1, 5, 10, 60][S.int("grid", 0, 4)]
    t = pd.date_range(T0, periods=n, freq=f"{step}min")
    eth = [S.dec(f"eth{i}", 500, 5000) for i in range(12)][:n]
    osq = [S.dec(f"osq{i}", Decimal("0.01"), 1) for i in range(12)][:n]
    eth2 = eth[:k + 1] + [S.dec(f"eth_alt{i}", 500, 5000) for i in range(12)][k + 1:n]
    osq2 = osq[:k + 1] + [S.dec(f"osq_alt{i}", Decimal("0.01"), 1) for i in range(12)][k + 1:n]
    out = []
    for e, o in ((eth, osq), (eth2, osq2)):
        m = SqueethMarket(MarketInfo("sqth", MarketTypeEnum.squeeth), None)
        m.data = pd.DataFrame({"norm_factor": [Decimal("0.5")] * n, "WETH": e, "OSQTH": o}, index=t)
        m.set_market_status(MarketStatus(t[k]), None)
        out.append((m.get_twap_price(WETH), m.get_twap_price(oSQTH)))
    S.check("TWAP(WETH)-at-bar-k-same-for-both-futures", out[0][0] == out[1][0])
    S.check("TWAP(oSQTH)-at-bar-k-same-for-both-futures", out[0][1] == out[1][1])
