"""C03 — frozen-market operations never create value, negative holdings or over-redemption.

Per operation, from an arbitrary non-negative state of the listed shape and with ARBITRARY arguments (negative, zero, oversized),
market data and prices fixed:
  NONNEG   every wallet balance and every holding (liquidity, pending amounts, scaled supplies and debts, vault amounts, option
           amounts, cash, GLP / GM shares) is >= 0 afterwards — whether the call was accepted or rejected;
  VALUE    the account value V (wallet at the bar's prices + the market's position value, written from the statement over the
           raw state) does not rise by more than the wallet dust (1e-5 of a balance the operation debits); Aave supply / withdraw /
           borrow / repay and Uniswap add / remove / collect conserve it (mod that dust and the 1e-18 scaled-amount dust),
           swaps at the pool price lose exactly the fee;
  HELD     nothing is paid out beyond what is held.
Sequences follow by induction on NONNEG (each operation is verified from an arbitrary NONNEG state)."""
from decimal import Decimal
from pyvc.api import proof, native, exact, spec
from .common import REJECT
from .aave_common import (AAVE_CONTRACTS, SHAPES as AAVE_SHAPES, world as aave_world_of, net_value as aave_net_value, price as aave_price, liq_index, borrow_index, DUST, dump)
from .worlds import deribit_world, gmx_world, gmx2_world, squeeth_world, uni_world, uni_at_bar, SQ_LP, H0, prices
from .c14 import SQ_CONTRACTS, eff_collateral
from .c04 import UNI_CONTRACTS, DERIBIT_SHAPES, SQ_SHAPES
from .c17 import _v2_contracts

WALLET_DUST = Decimal("0.0000100001")


@native
def wallet_items(w):
    return [(t, a.balance) for t, a in w.broker._assets.data.items()]


@spec
def all_nonneg(values):
    ok = True
    for v in values:
        ok = ok and v >= 0
    return ok


# ================================================================================================ Aave
@spec
def aave_value(w):
    v = aave_net_value(w.market)
    for t, bal in wallet_items(w):
        v = v + bal * aave_price(w.market, t)
    return v


@native
def aave_amounts(w):
    m = w.market
    return [a.balance for a in w.broker._assets.data.values()] + [i.base_amount for i in m._supplies.values()] + [i.base_amount for i in m._borrows.values()]


def _aave_op(S, op_name):
    w = aave_world_of(S)
    m = w.market
    a = S.dec("amount", None, None)
    v0 = aave_value(w)
    touched = [bal for t, bal in wallet_items(w) if t == w.op][0]
    ok = True
    try:
        if op_name == "supply":
            m.supply(w.op, a, S.bool("collateral"))
        elif op_name == "withdraw":
            m.withdraw(w.op, a)
        elif op_name == "borrow":
            m.borrow(w.op, a)
        elif op_name == "repay":
            m.repay(w.op, a)
        else:
            other = [t for t in w.tokens.values()][0]
            m.repay(w.op, a, True, other)
    except REJECT:
        ok = False
    S.check("NONNEG:wallet,supplies,debts", all_nonneg(aave_amounts(w)))
    v1 = aave_value(w)
    P = aave_price(m, w.op)
    slack = touched * WALLET_DUST * P + 2 * DUST * (liq_index(m, w.op) + borrow_index(m, w.op)) * P
    if op_name == "repay-with-collateral":
        other = [t for t in w.tokens.values()][0]
        slack = slack + 2 * DUST * liq_index(m, other) * aave_price(m, other)
    if ok:
        S.cover("accepted")
        S.check("VALUE:conserved(mod-dust)", S.le(v1, v0 + slack) and S.le(v0 - slack, v1))
    else:
        S.check("VALUE:rejected=>unchanged", S.eq(v1, v0))


@proof("C03", "aave/supply", strength="S", shapes=AAVE_SHAPES, contracts=AAVE_CONTRACTS, covers=("accepted",))
def po_aave_supply(S):
    _aave_op(S, "supply")


@proof("C03", "aave/withdraw", strength="S", shapes=AAVE_SHAPES, contracts=AAVE_CONTRACTS)
def po_aave_withdraw(S):
    _aave_op(S, "withdraw")


@proof("C03", "aave/borrow", strength="S", shapes=AAVE_SHAPES, contracts=AAVE_CONTRACTS)
def po_aave_borrow(S):
    _aave_op(S, "borrow")


@proof("C03", "aave/repay", strength="S", shapes=AAVE_SHAPES, contracts=AAVE_CONTRACTS)
def po_aave_repay(S):
    _aave_op(S, "repay")


@proof("C03", "aave/repay-with-collateral", strength="S", shapes=AAVE_SHAPES, contracts=AAVE_CONTRACTS)
def po_aave_repay_coll(S):
    _aave_op(S, "repay-with-collateral")


# ================================================================================================ Deribit
@spec
def deribit_value(w):
    """in ETH: wallet + cash + options at (unrounded) mark"""
    m = w.market
    v = m.balance
    for t, bal in wallet_items(w):
        v = v + bal
    for name, p in m.positions.items():
        if name in m._market_status.data.index:
            v = v + p.amount * Decimal(str(m._market_status.data.at[name, "mark_price"]))
    return v


@native
def deribit_amounts(w):
    m = w.market
    d = m._market_status.data
    sizes = [lv[1] for n in d.index for c in ("asks", "bids") for lv in d.at[n, c]]
    return [a.balance for a in w.broker._assets.data.values()] + [m.balance] + [p.amount for p in m.positions.values()] + sizes


def _deribit(S):
    sh = S.shape
    from .worlds import H0_1
    return deribit_world(S, (("I0", "CALL", sh["state"]),), sh["n"], sh["n"], ("I0",) if sh["held"] else (), H0 if sh["ts"] == "open" else H0_1)


@proof("C03", "deribit/buy,sell", strength="S", shapes=DERIBIT_SHAPES, config={"max_seconds": 600},
       covers=lambda sh: ("accepted",) if sh["state"] == "open" and sh["ts"] == "open" else ())
def po_deribit_trade(S):
    w = _deribit(S)
    m = w.market
    a = S.dec("amount", None, None)
    limit = S.dec("price_in_token", 0, 10, lo_strict=True) if S.bool("with_limit_price") else None
    cap = S.dec("max_mark_price_multiple", 1, 100) if S.bool("with_price_cap") else None      # "all argument values": the rarely used cap too
    held0 = m.positions["I0"].amount if "I0" in m.positions else 0
    v0 = deribit_value(w)
    is_buy = S.bool("is_buy")
    ok = True
    try:
        if is_buy:
            orders, fee = m.buy("I0", a, limit, None, cap)
        else:
            orders, fee = m.sell("I0", a, limit, None, cap)
    except REJECT:
        ok = False
    S.check("NONNEG:wallet,cash,option-amounts,visible-book-sizes", all_nonneg(deribit_amounts(w)))
    v1 = deribit_value(w)
    S.check("VALUE:never-rises(bids<=mark<=asks)", S.le(v1, v0))
    if ok:
        S.cover("accepted")
        n = sum([o.amount for o in orders])
        S.check("HELD:sold<=held", is_buy or S.le(n, held0))
        S.check("VALUE:loses-at-least-the-fee", S.le(v1, v0 - fee) and fee >= 0)


@proof("C03", "deribit/deposit,withdraw", strength="S", shapes={"quick": DERIBIT_SHAPES["quick"][:1], "thorough": DERIBIT_SHAPES["quick"][:1]})
def po_deribit_cash(S):
    w = _deribit(S)
    m = w.market
    a = S.dec("amount", None, None)
    v0 = deribit_value(w)
    touched = w.broker._assets[w.token].balance
    try:
        if S.bool("is_deposit"):
            m.deposit(a)
        else:
            m.withdraw(a)
    except REJECT:
        pass
    S.check("NONNEG:wallet,cash", all_nonneg(deribit_amounts(w)))
    S.check("VALUE:conserved(mod-wallet-dust)", S.le(deribit_value(w), v0 + touched * WALLET_DUST))


# ================================================================================================ GMX v1
@spec
def gmx_value(w):
    m, d = w.market, w.data
    v = m.glp_amount * d["glp_price"] + m.reward * d["wavax_price"] / 10 ** 30
    for t, bal in wallet_items(w):
        v = v + bal * d[t.name.lower() + "_price"] / 10 ** 30
    return v


@proof("C03", "gmx-v1/buy_glp,sell_glp", strength="S", shapes={"quick": [{"tokens": ["WETH", "WAVAX"]}], "thorough": [{"tokens": ["WETH", "WAVAX"]}, {"tokens": ["WETH", "WAVAX", "USDC"]}]},
       config={"max_seconds": 600})
def po_gmx1(S):
    w = gmx_world(S, tuple(S.shape["tokens"]))
    m, d = w.market, w.data
    tok = w.tokens["WETH"]
    total = 0
    for n in w.tokens:
        total = total + d[n.lower() + "_weight"]
    S.assume(total > 0)
    # the row is self-consistent: the GLP price is AUM per share (30-decimals AUM, 18-decimals supply)
    S.assume(d["glp_price"] * d["glp"] * 10 ** 12 == d["aum"])
    # AUM is rounded down to whole USDG units (1e-18 USD) when shares are priced: with an AUM of a few units that rounding is a
    # visible fraction of the value; a pool worth at least 1e-6 USD keeps it below 1e-12 relative (well inside the wallet dust)
    S.assume(d["aum"] >= 10 ** 24)
    a = S.dec("amount", None, None)
    held0 = m.glp_amount
    v0 = gmx_value(w)
    touched = w.broker._assets[tok].balance
    is_buy = S.bool("is_buy")
    ok = True
    try:
        if is_buy:
            m.buy_glp(tok, a)
        else:
            m.sell_glp(tok, a)
    except REJECT:
        ok = False
    S.check("NONNEG:wallet,glp,reward", all_nonneg([bal for t, bal in wallet_items(w)] + [m.glp_amount, m.reward]))
    # AUM-in-USDG is rounded down to a whole USDG unit: one unit of relative slack on the redeemed value
    aum_usdg = d["aum"] / 10 ** 12
    slack = touched * WALLET_DUST * d["weth_price"] / 10 ** 30
    S.check("VALUE:never-rises(mod-wallet-dust)", S.le(gmx_value(w), v0 + slack))
    if ok and not is_buy:
        S.check("HELD:redeemed<=held", S.le(held0 - m.glp_amount, held0))


# ================================================================================================ GMX v2
@proof("C03", "gmx-v2/deposit,withdraw", strength="S", shapes={"quick": [{"virtual": True}], "thorough": [{"virtual": True}, {"virtual": False}]}, contracts=_v2_contracts(),
       config={"max_seconds": 600})
def po_gmx2(S):
    w = gmx2_world(S, S.shape["virtual"])
    m, d = w.market, w.data
    S.assume(d["longAmount"] * d["longPrice"] + d["shortAmount"] * d["shortPrice"] > 0)
    held0 = m.amount
    wl0, ws0 = w.broker._assets[w.long].balance, w.broker._assets[w.short].balance

    def value():
        return w.broker._assets[w.long].balance * Decimal(d["longPrice"]) + w.broker._assets[w.short].balance * Decimal(d["shortPrice"]) \
            + Decimal(m.amount * d["poolValue"] / d["marketTokensSupply"])
    v0 = value()
    is_dep = S.bool("is_deposit")
    impact = 0
    try:
        if is_dep:
            r = m.deposit(S.flt("long_amount", None, None), S.flt("short_amount", None, None))
            impact = r.price_impact_usd
        else:
            m.withdraw(S.flt("gm_amount", None, None))
    except REJECT:
        pass
    S.check("NONNEG:wallet,gm", all_nonneg([bal for t, bal in wallet_items(w)] + [m.amount]))
    S.check("HELD:redeemed<=held", S.le(held0 - m.amount, held0))
    slack = (wl0 * Decimal(d["longPrice"]) + ws0 * Decimal(d["shortPrice"])) * WALLET_DUST
    S.check("VALUE:rises-at-most-by-the-positive-price-impact-credited(mod-wallet-dust)", S.le(value(), v0 + slack + Decimal(impact if impact > 0 else 0)))
    S.check("VALUE:never-rises(mod-wallet-dust)", S.le(value(), v0 + slack))


# ================================================================================================ Squeeth
@spec
def squeeth_value(w, E):
    """in ETH: wallet WETH + wallet oSQTH at the pool's oSQTH price + vault collateral (incl. LP at index price) - short at oSQTH price"""
    m = w.market
    po = m._market_status.data["OSQTH"]
    v = w.broker._assets[w.weth].balance + w.broker._assets[w.osqth].balance * po
    for vk in m.vault:
        v = v + eff_collateral(w, vk, E) - m.vault[vk].osqth_short_amount * po
    return v


@native
def squeeth_amounts(w):
    return [a.balance for a in w.broker._assets.data.values()] + [x for v in w.market.vault.values() for x in (v.collateral_amount, v.osqth_short_amount)]


@proof("C03", "squeeth/vault-operations", strength="S", shapes=SQ_SHAPES, contracts=SQ_CONTRACTS, config={"max_seconds": 600})
def po_squeeth(S):
    w = squeeth_world(S, (S.shape["lp"],))
    m, vk = w.market, w.keys[0]
    E = m.get_twap_price(w.weth)
    v0 = squeeth_value(w, E)
    c0, s0 = m.vault[vk].collateral_amount, m.vault[vk].osqth_short_amount
    we0, wo0 = w.broker._assets[w.weth].balance, w.broker._assets[w.osqth].balance
    which = S.int("which_operation", 0, 3)
    x, y = S.dec("x", None, None), S.dec("y", None, None)
    try:
        if which == 0:
            m.open_deposit_mint(x, y, vk)
        elif which == 1:
            m.burn_and_withdraw(vk, x, y)
        elif which == 2:
            m.deposit(vk, x)
        else:
            m.withdraw_uni_position(vk, SQ_LP)
    except REJECT:
        S.cover("rejected")
    S.check("NONNEG:wallet,vault-collateral,vault-short", all_nonneg(squeeth_amounts(w)))
    po = m._market_status.data["OSQTH"]
    slack = (we0 + wo0 * po) * WALLET_DUST
    if which != 3:
        S.check("VALUE:never-rises(mod-wallet-dust)", S.le(squeeth_value(w, E), v0 + slack))
    S.check("HELD:withdrawn<=collateral;burned<=debt", S.le(c0 - m.vault[vk].collateral_amount, c0) and S.le(s0 - m.vault[vk].osqth_short_amount, s0))


# ================================================================================================ Uniswap
@spec
def uni_value(w, q0):
    """in quote: wallet + own positions (amounts + pending) at the pool price"""
    m = w.market
    price = m._market_status.data.price
    t0b, t1b = w.broker._assets[w.pool.token0].balance, w.broker._assets[w.pool.token1].balance
    for k, p in m._positions.items():
        a0, a1 = m.get_position_amount(k)
        t0b, t1b = t0b + a0 + p.pending_amount0, t1b + a1 + p.pending_amount1
    base, quote = (t1b, t0b) if q0 else (t0b, t1b)
    return base * price + quote


@native
def uni_amounts(w):
    return [a.balance for a in w.broker._assets.data.values()] + [x for p in w.market._positions.values() for x in (p.liquidity, p.pending_amount0, p.pending_amount1)]


UNI_OPS = {"quick": [{"q0": True}, {"q0": False}], "thorough": [{"q0": True}, {"q0": False}]}


@proof("C03", "uniswap/buy,sell,swap-at-pool-price:lose-exactly-the-fee", strength="S", shapes=UNI_OPS, contracts=UNI_CONTRACTS, covers=("accepted",))
def po_uni_swap(S):
    q0 = S.shape["q0"]
    w = uni_at_bar(uni_world(S, 6, 18, q0, 1, 0.05))
    m = w.market
    price = m._market_status.data.price
    a = S.dec("amount", None, None)
    v0 = uni_value(w, q0)
    touched = w.broker._assets[w.pool.token0].balance * (1 if q0 else price) + w.broker._assets[w.pool.token1].balance * (price if q0 else 1)
    which = S.int("which_operation", 0, 2)
    ok = True
    fee_value = 0
    try:
        if which == 0:
            fee, _, _ = m.buy(a)
            fee_value = fee                      # buy: fee in quote
        elif which == 1:
            fee, _, _ = m.sell(a)
            fee_value = fee * price              # sell: fee in base
        else:
            fee, _ = m.swap(a, m.base_token, m.quote_token)
            fee_value = fee * price
    except REJECT:
        ok = False
    S.check("NONNEG:wallet", all_nonneg(uni_amounts(w)))
    v1 = uni_value(w, q0)
    slack = touched * WALLET_DUST
    if ok:
        S.cover("accepted")
        S.check("fee>=0", fee_value >= 0)
        S.check("VALUE:loses-exactly-the-reported-fee(mod-wallet-dust)", S.le(v1, v0 - fee_value + slack) and S.le(v0 - fee_value - slack, v1))
    else:
        S.check("VALUE:rejected=>unchanged", S.eq(v1, v0))


def get_amounts_linear_contract(interp, args, kwargs):
    """CONTRACT of liquitidy_math.get_amounts(s, tickA, tickB, L, d0, d1) in the form value conservation needs:
       amounts == L x (unit amounts of (s, tickA, tickB)), unit amounts >= 0  (C07 get_amounts/linear-in-liquidity, /non-negative)"""
    import z3
    from pyvc.sym import SV, DEC, lift, as_real_term
    from .c14 import _as_int
    p = interp.path
    sq, ta, tb, liq = args[0], args[1], args[2], args[3]
    u0 = p.uf("uni_unit_amount0", z3.IntSort(), z3.IntSort(), z3.IntSort(), z3.RealSort())
    u1 = p.uf("uni_unit_amount1", z3.IntSort(), z3.IntSort(), z3.IntSort(), z3.RealSort())
    a = [_as_int(x) for x in (sq, ta, tb)]
    r0, r1 = u0(*a), u1(*a)
    p.assume(z3.And(r0 >= 0, r1 >= 0), "contract get_amounts: amounts == liquidity x non-negative unit amounts of (sqrt price, ticks) (C07 linear-in-liquidity)")
    L = as_real_term(lift(liq))
    return SV(L * r0, DEC), SV(L * r1, DEC)


def _uni_linear():
    import demeter.uniswap.core as core
    d = dict(UNI_CONTRACTS)
    d[core.get_amounts] = get_amounts_linear_contract
    return d


UNI_LINEAR = _uni_linear()


@spec
def uni_reported(w, q0):
    """the net value the account REPORTS for wallet + this market (get_market_balance is the code under test here, not the oracle)"""
    m = w.market
    price = m._market_status.data.price
    t0b, t1b = w.broker._assets[w.pool.token0].balance, w.broker._assets[w.pool.token1].balance
    base, quote = (t1b, t0b) if q0 else (t0b, t1b)
    return base * price + quote + m.get_market_balance().net_value


@proof("C03", "uniswap/add(new-position),remove,collect:conserve-value", strength="S", shapes=UNI_OPS, contracts=UNI_LINEAR, config={"max_seconds": 600})
def po_uni_lp(S):
    q0 = S.shape["q0"]
    w = uni_at_bar(uni_world(S, 6, 18, q0, 1, 0.05))
    m = w.market
    price = m._market_status.data.price
    key = w.pos_keys[0]
    L0, p00, p10 = m._positions[key].liquidity, m._positions[key].pending_amount0, m._positions[key].pending_amount1
    v0 = uni_value(w, q0)
    r0 = uni_reported(w, q0)
    touched = w.broker._assets[w.pool.token0].balance * (1 if q0 else price) + w.broker._assets[w.pool.token1].balance * (price if q0 else 1)
    which = S.int("which_operation", 0, 2)
    try:
        if which == 0:
            m.add_liquidity_by_tick(-600, 600, S.dec("base_max", None, None), S.dec("quote_max", None, None), -1, -1, False)
        elif which == 1:
            m.remove_liquidity(key, S.int("liquidity", None, None), S.bool("collect"))
        else:
            m.collect_fee(key, S.dec("max0", None, None), S.dec("max1", None, None))
    except REJECT:
        S.cover("rejected")
    S.check("NONNEG:wallet,liquidity,pending", all_nonneg(uni_amounts(w)))
    v1 = uni_value(w, q0)
    slack = touched * WALLET_DUST
    # removing part of a position relies on get_amounts being linear in the liquidity: the callee contract says so (C07)
    S.check("VALUE:conserved(mod-wallet-dust)", S.le(v1, v0 + slack) and S.le(v0 - slack, v1))
    r1 = uni_reported(w, q0)
    S.check("REPORTED-net-value:conserved(mod-wallet-dust)", S.le(r1, r0 + slack) and S.le(r0 - slack, r1))
    if key in m._positions:
        S.check("HELD:removed<=held", m._positions[key].liquidity <= L0 or which == 0)


# ================================================================================================ wallet
@proof("C03", "wallet/Asset.sub,swap_by_from,swap_by_to", strength="S", shapes=UNI_OPS)
def po_wallet(S):
    w = uni_at_bar(uni_world(S, 6, 18, S.shape["q0"], 0, 0.05))
    t0, t1 = w.pool.token0, w.pool.token1
    a = S.dec("amount", None, None)
    p0, p1 = S.dec("p0", 0, None, lo_strict=True), S.dec("p1", 0, None, lo_strict=True)
    pr = prices({t0.name: p0, t1.name: p1})
    b0, b1 = w.broker._assets[t0].balance, w.broker._assets[t1].balance
    v0 = b0 * p0 + b1 * p1
    which = S.int("which_operation", 0, 2)
    ok = True
    try:
        if which == 0:
            w.broker.subtract_from_balance(t0, a)
        elif which == 1:
            w.broker.swap_by_from(t0, t1, a, pr)
        else:
            w.broker.swap_by_to(t0, t1, a, pr)
    except REJECT:
        ok = False
    n0, n1 = w.broker._assets[t0].balance, w.broker._assets[t1].balance
    S.check("NONNEG:wallet", n0 >= 0 and n1 >= 0)
    v1 = n0 * p0 + n1 * p1
    if which == 0:
        S.check("Asset.sub:never-below-zero;debits-amount-or-snaps-the-1e-5-dust", not ok or S.eq(n0, b0 - a) or (n0 == 0 and abs(b0 - a) <= b0 * WALLET_DUST))
    else:
        S.check("VALUE:swap-never-creates-value(mod-wallet-dust)", S.le(v1, v0 + b0 * p0 * WALLET_DUST))
