"""C06 — tick <-> sqrt-price conversions (demeter/uniswap/liquitidy_math.py, helper.py).

Deductive part (U): sqrt_price_x96_to_tick / _sqrt_price_to_tick / _floor_tick against the statement's *floor*
definition stated over the code's own forward function (get_sqrt_ratio_at_tick by its contract: range, boundary
values, strictly increasing); math.log is an UNCONSTRAINED float, so the proof cannot depend on the float estimate;
nearest_usable_tick; the price<->tick and price<->sqrt helpers as mutually inverse (reals).
Exhaustive part (X): get_sqrt_ratio_at_tick itself on all 1,774,545 ticks against a 400-bit oracle: closeness with the
statement's bound, strict monotonicity, range, boundary values — this discharges the callee contract used above and in C07.
"""
from decimal import Decimal
from pyvc.api import proof, native, exact, spec
from pyvc.seq import LoopSpec
from demeter.uniswap import liquitidy_math as lm
from demeter.uniswap import helper
from .common import MIN_TICK, MAX_TICK, MIN_SQRT, MAX_SQRT, Q96, SQRT_CONTRACT


# ------------------------------------------------------------------------------------------- floor search loops
@spec
def inv_up(env):
    t = env["tick"]
    return {"tick-in-range": MIN_TICK <= t and t <= MAX_TICK}


@spec
def inv_down(env):
    t = env["tick"]
    x = env["sqrt_price_x96"]
    return {"tick-in-range": MIN_TICK <= t and t <= MAX_TICK,
            "next-tick-is-above-input": t == MAX_TICK or lm.get_sqrt_ratio_at_tick(t + 1) > x}


@spec
def var_up(env):
    return MAX_TICK - env["tick"]


@spec
def var_down(env):
    return env["tick"] - MIN_TICK


FLOOR_LOOPS = {("_floor_tick", 0): LoopSpec(inv_up, name="_floor_tick#up", variant=var_up),
               ("_floor_tick", 1): LoopSpec(inv_down, name="_floor_tick#down", variant=var_down)}


@proof("C06", "sqrt_price_x96_to_tick/floor", strength="U", contracts=SQRT_CONTRACT, loops=FLOOR_LOOPS)
def po_sqrt_to_tick(S):
    """For every MIN_SQRT <= x < MAX_SQRT the result r is the greatest tick with f(r) <= x: f(r) <= x < f(r+1)."""
    x = S.int("sqrt_price_x96", MIN_SQRT, MAX_SQRT - 1)
    r = helper.sqrt_price_x96_to_tick(x)
    S.check("result-is-valid-tick", MIN_TICK <= r and r < MAX_TICK)
    S.check("floor:f(r)<=x", lm.get_sqrt_ratio_at_tick(r) <= x)
    S.check("floor:x<f(r+1)", x < lm.get_sqrt_ratio_at_tick(r + 1))


@proof("C06", "sqrt_price_x96_to_tick/on-tick-boundaries", strength="U", contracts=SQRT_CONTRACT, loops=FLOOR_LOOPS)
def po_sqrt_to_tick_boundary(S):
    """x = f(t) maps back to t, and x = f(t+1) - 1 maps to t (negative as well as positive ticks)."""
    t = S.int("tick", MIN_TICK, MAX_TICK - 1)
    below = S.bool("one_below_next_boundary")
    f0 = lm.get_sqrt_ratio_at_tick(t)
    f1 = lm.get_sqrt_ratio_at_tick(t + 1)
    x = f1 - 1 if below else f0
    r = helper.sqrt_price_x96_to_tick(x)
    S.check("tick-recovered", r == t)


@proof("C06", "_sqrt_price_to_tick/floor", strength="U", contracts=SQRT_CONTRACT, loops=FLOOR_LOOPS)
def po_sqrtprice_to_tick(S):
    """Same floor property for the Decimal (non-x96) entry used by base_unit_price_to_tick."""
    sp = S.dec("sqrt_price", None, None)
    S.assume(sp * Q96 >= MIN_SQRT and sp * Q96 < MAX_SQRT)
    r = helper._sqrt_price_to_tick(sp)
    S.check("result-is-valid-tick", MIN_TICK <= r and r < MAX_TICK)
    S.check("floor:f(r)<=x", S.le(lm.get_sqrt_ratio_at_tick(r), sp * Q96))
    S.check("floor:x<f(r+1)", sp * Q96 < lm.get_sqrt_ratio_at_tick(r + 1))


@proof("C06", "tick_to_sqrt_price_x96/is-TickMath", strength="U", contracts=SQRT_CONTRACT)
def po_tick_to_sqrt(S):
    t = S.int("tick", MIN_TICK, MAX_TICK)
    S.check("same-as-get_sqrt_ratio_at_tick", helper.tick_to_sqrt_price_x96(t) == lm.get_sqrt_ratio_at_tick(t))


# ------------------------------------------------------------------------------------------- usable ticks
SPACINGS = {"quick": [{"spacing": 1}, {"spacing": 10}, {"spacing": 60}, {"spacing": 200}],
            "thorough": [{"spacing": s} for s in (1, 2, 10, 50, 60, 100, 200)]}


@proof("C06", "nearest_usable_tick/nearest-multiple-in-range", strength="U", shapes=SPACINGS,
       note="tick/spacing (a float division of two ints below 2**53) is idealised as the exact quotient: a correctly rounded "
            "quotient cannot cross a .5 boundary because non-half quotients are at least 1/(2*spacing) away from it")
def po_nearest_usable(S):
    """Result is a multiple of the spacing, inside [-887272, 887272], and no other such multiple is closer."""
    sp = S.shape["spacing"]
    t = S.int("tick", MIN_TICK, MAX_TICK)
    r = helper.nearest_usable_tick(t, sp)
    S.check("multiple-of-spacing", r % sp == 0)
    S.check("inside-valid-range", MIN_TICK <= r and r <= MAX_TICK)
    k = S.int("other_multiple_index", -MAX_TICK, MAX_TICK)
    m = k * sp
    S.assume(MIN_TICK <= m and m <= MAX_TICK)
    S.check("no-usable-tick-is-closer", abs(r - t) <= abs(m - t))
    S.check("within-half-spacing-when-unclamped", not (MIN_TICK + sp <= t and t <= MAX_TICK - sp) or 2 * abs(r - t) <= sp)


# ------------------------------------------------------------------------------------------- price helpers
ORIENT = {"quick": [{"d0": 6, "d1": 18, "q0": True}, {"d0": 18, "d1": 6, "q0": False}, {"d0": 18, "d1": 18, "q0": True}],
          "thorough": [{"d0": a, "d1": b, "q0": q} for a in (6, 8, 18) for b in (6, 8, 18) for q in (True, False)]}


@proof("C06", "price-helpers/tick->price->tick", strength="U", contracts=SQRT_CONTRACT, loops=FLOOR_LOOPS, shapes=ORIENT)
def po_tick_price_tick(S):
    """base_unit_price_to_tick(tick_to_base_unit_price(t)) is within one tick of t, either orientation."""
    d0, d1, q0 = S.shape["d0"], S.shape["d1"], S.shape["q0"]
    t = S.int("tick", MIN_TICK, MAX_TICK - 1)
    p = helper.tick_to_base_unit_price(t, d0, d1, q0)
    S.check("price-positive", p > 0)
    r = helper.base_unit_price_to_tick(p, d0, d1, q0)
    S.check("within-one-tick", t - 1 <= r and r <= t + 1)


@proof("C06", "price-helpers/price->tick->price", strength="U", contracts=SQRT_CONTRACT, loops=FLOOR_LOOPS, shapes=ORIENT)
def po_price_tick_price(S):
    """The tick of a price brackets it: price(t) <= p < price(t+1) in pool orientation (reversed when token0 is quote)."""
    d0, d1, q0 = S.shape["d0"], S.shape["d1"], S.shape["q0"]
    p = S.dec("price", 0, None, lo_strict=True)
    # precondition, stated exactly: the price corresponds to a sqrt price inside [MIN_SQRT, MAX_SQRT)
    c = exact(Decimal(10 ** (d0 - d1)))
    pool = 1 / exact(p) if q0 else exact(p)
    x_sq = pool / c * Q96 * Q96
    S.assume(MIN_SQRT * MIN_SQRT <= x_sq and x_sq < MAX_SQRT * MAX_SQRT)
    t = helper.base_unit_price_to_tick(p, d0, d1, q0)
    S.check("tick-valid", MIN_TICK <= t and t < MAX_TICK)
    p0 = helper.tick_to_base_unit_price(t, d0, d1, q0)
    p1 = helper.tick_to_base_unit_price(t + 1, d0, d1, q0)
    if q0:
        S.check("bracketed", S.le(p, p0) and p1 < p)
    else:
        S.check("bracketed", S.le(p0, p) and p < p1)


@proof("C06", "price-helpers/sqrt->price->sqrt", strength="U", shapes=ORIENT)
def po_sqrt_price_sqrt(S):
    """base_unit_price_to_sqrt_price_x96(sqrt_price_x96_to_base_unit_price(x)) differs from x by at most one unit."""
    d0, d1, q0 = S.shape["d0"], S.shape["d1"], S.shape["q0"]
    x = S.int("sqrt_price_x96", MIN_SQRT, MAX_SQRT)
    p = helper.sqrt_price_x96_to_base_unit_price(x, d0, d1, q0)
    S.check("price-positive", p > 0)
    x2 = helper.base_unit_price_to_sqrt_price_x96(p, d0, d1, q0)
    S.check("within-one-unit", S.le(exact(x) - 1, x2) and S.le(x2, exact(x) + 1))   # natively: up to the 35-digit resolution (S.le slack)


@proof("C06", "price-helpers/tick-price-is-square-of-sqrt-price", strength="U", contracts=SQRT_CONTRACT, shapes=ORIENT)
def po_tick_price_consistent(S):
    """tick_to_base_unit_price(t) == sqrt_price_x96_to_base_unit_price(get_sqrt_ratio_at_tick(t)): one price per tick."""
    d0, d1, q0 = S.shape["d0"], S.shape["d1"], S.shape["q0"]
    t = S.int("tick", MIN_TICK, MAX_TICK)
    S.check("same-price", S.eq(helper.tick_to_base_unit_price(t, d0, d1, q0),
                               helper.sqrt_price_x96_to_base_unit_price(lm.get_sqrt_ratio_at_tick(t), d0, d1, q0)))
    t2 = S.int("tick2", MIN_TICK, MAX_TICK)
    S.assume(t < t2)
    pa = helper.tick_to_base_unit_price(t, d0, d1, q0)
    pb = helper.tick_to_base_unit_price(t2, d0, d1, q0)
    S.check("price-monotone-in-tick(orientation)", pb < pa if q0 else pa < pb)


# ------------------------------------------------------------------------------------------- exhaustive (X)
NSHARD = 32
SHARDS = [{"shard": i, "of": NSHARD} for i in range(NSHARD)]


def _oracle():
    import mpmath
    mp = mpmath.mp
    mp.prec = 420
    base = mpmath.sqrt(mpmath.mpf(10001) / mpmath.mpf(10000))
    return mpmath, base


def _check_tick(t, mpmath, base, out, prev=None):
    """All clauses of the statement about get_sqrt_ratio_at_tick at one tick (prev = f(t-1) if known)."""
    f = lm.get_sqrt_ratio_at_tick(t)
    two96 = mpmath.mpf(2) ** 96
    ideal = mpmath.power(base, t) * two96
    err = abs(mpmath.mpf(f) - ideal)
    bound = mpmath.mpf(1)
    if t > 0:
        bound = bound + ideal * 8 * mpmath.power(base, t) / mpmath.mpf(2) ** 128
    margin = bound - err
    c = out["closeness-to-sqrt(1.0001^t)*2^96"]
    c["instances"] += 1
    if margin <= 0:
        c["failures"].append({"tick": t, "value": str(f), "error": mpmath.nstr(err, 12), "bound": mpmath.nstr(bound, 12)})
    elif margin < mpmath.mpf(10) ** -60:
        c["undecided"] += 1
    c = out["range[MIN_SQRT,MAX_SQRT]"]
    c["instances"] += 1
    if not (MIN_SQRT <= f <= MAX_SQRT):
        c["failures"].append({"tick": t, "value": str(f)})
    if prev is not None:
        c = out["strictly-increasing"]
        c["instances"] += 1
        if not prev < f:
            c["failures"].append({"tick": t, "value": str(f), "previous": str(prev)})
    if t in (MIN_TICK, MAX_TICK, 0):
        c = out["boundary-values"]
        c["instances"] += 1
        want = {MIN_TICK: MIN_SQRT, MAX_TICK: MAX_SQRT, 0: Q96}[t]
        if f != want:
            c["failures"].append({"tick": t, "value": str(f), "expected": str(want)})
    return f


@proof("C06", "get_sqrt_ratio_at_tick/all-ticks", strength="X", shapes=SHARDS,
       note="every tick of this shard of [-887272, 887272] evaluated natively against a 420-bit mpmath oracle; all shards together "
            "cover all 1,774,545 ticks in both tiers")
def x_all_ticks(ctx):
    mpmath, base = _oracle()
    out = {k: {"instances": 0, "failures": [], "undecided": 0} for k in
           ("closeness-to-sqrt(1.0001^t)*2^96", "range[MIN_SQRT,MAX_SQRT]", "strictly-increasing", "boundary-values")}
    if ctx.get("replay"):
        t = int(ctx["replay"]["tick"])
        prev = lm.get_sqrt_ratio_at_tick(t - 1) if t > MIN_TICK else None
        _check_tick(t, mpmath, base, out, prev)
        return out
    i, n = ctx["shape"]["shard"], ctx["shape"]["of"]
    total = MAX_TICK - MIN_TICK + 1
    a = MIN_TICK + total * i // n
    b = MIN_TICK + total * (i + 1) // n
    prev = lm.get_sqrt_ratio_at_tick(a - 1) if a > MIN_TICK else None
    for t in range(a, b):
        prev = _check_tick(t, mpmath, base, out, prev)
        for c in out.values():
            if len(c["failures"]) > 5:
                del c["failures"][5:]
    return out


@proof("C06", "sqrt_price_x96_to_tick/all-tick-boundaries", strength="X", shapes=SHARDS,
       note="native cross-check of the floor conversion at x = f(t), f(t)+1 and f(t+1)-1: every tick in the thorough tier, "
            "a seeded stride of 1/16 of the ticks plus the extremes in the quick tier")
def x_floor_boundaries(ctx):
    out = {k: {"instances": 0, "failures": [], "undecided": 0} for k in ("f(t)->t", "f(t)+1->t", "f(t+1)-1->t")}

    def one(t):
        f0 = lm.get_sqrt_ratio_at_tick(t)
        f1 = lm.get_sqrt_ratio_at_tick(t + 1)
        for name, x in (("f(t)->t", f0), ("f(t)+1->t", f0 + 1), ("f(t+1)-1->t", f1 - 1)):
            if not (f0 <= x < f1):
                continue
            out[name]["instances"] += 1
            r = helper.sqrt_price_x96_to_tick(x)
            if r != t and len(out[name]["failures"]) < 5:
                out[name]["failures"].append({"tick": t, "sqrt_price_x96": str(x), "returned": r})
    if ctx.get("replay"):
        one(int(ctx["replay"]["tick"]))
        return out
    i, n = ctx["shape"]["shard"], ctx["shape"]["of"]
    total = MAX_TICK - MIN_TICK
    a = MIN_TICK + total * i // n
    b = MIN_TICK + total * (i + 1) // n
    step = 1 if ctx["tier"] == "thorough" else 16
    off = (ctx["seed"] * 7 + i) % step
    for t in range(a + off, b, step):
        one(t)
    for t in (a, b - 1, -1, 0, 1):
        if a <= t < b:
            one(t)
    return out
