"""Shared constants, callee contracts and spec helpers for the sidecar contracts."""
import z3
from decimal import Decimal
from pyvc.sym import SV, INT, DEC, FLT, BOOL
from pyvc.api import native
from demeter.uniswap import liquitidy_math as lm

MIN_TICK = -887272
MAX_TICK = 887272
MIN_SQRT = 4295128739
MAX_SQRT = 1461446703485210103287273052203988822378723970342
Q96 = 2 ** 96


def sqrt_ratio_contract(interp, args, kwargs):
    """Callee contract of liquitidy_math.get_sqrt_ratio_at_tick (its own obligations are C06's):
         requires  -887272 <= tick <= 887272          (side obligation at the call site)
         ensures   MIN_SQRT <= result <= MAX_SQRT, result is a function of tick, strictly increasing in tick,
                   result(MIN_TICK) == MIN_SQRT, result(MAX_TICK) == MAX_SQRT
       A concrete tick calls the real function."""
    t = args[0] if args else kwargs["tick"]
    p = interp.path
    if not isinstance(t, SV):
        r_val = lm.get_sqrt_ratio_at_tick(t)
        tt, rr = z3.IntVal(int(t)), z3.IntVal(r_val)
        res = r_val
    else:
        if t.ty not in (INT,):
            tt = z3.ToInt(t.t) if t.ty != BOOL else None
        else:
            tt = t.t
        inr = z3.And(tt >= MIN_TICK, tt <= MAX_TICK)
        if interp.spec_depth == 0:
            p.vc("get_sqrt_ratio_at_tick/requires-tick-in-range", inr, kind="callee-pre")
        # inside specification text (invariants) the function is the total mathematical one; its range is known only in range
        f = p.uf("sqrt_ratio", z3.IntSort(), z3.IntSort())
        rr = f(tt)
        p.assume(z3.Implies(inr, z3.And(rr >= MIN_SQRT, rr <= MAX_SQRT)), "contract get_sqrt_ratio_at_tick: MIN_SQRT <= result <= MAX_SQRT (proved in C06)")
        p.assume(z3.And(z3.Implies(tt == MIN_TICK, rr == MIN_SQRT), z3.Implies(tt == MAX_TICK, rr == MAX_SQRT)),
                 "contract get_sqrt_ratio_at_tick: boundary values (proved in C06)")
        res = SV(rr, INT)
    seen = p.symtab.setdefault(("sqrt_seen", p.path_id), [])
    for (t2, r2) in seen:
        if tt.eq(t2):
            continue
        p.assume(z3.And(z3.Implies(tt < t2, rr < r2), z3.Implies(tt > t2, rr > r2), z3.Implies(tt == t2, rr == r2)),
                 "contract get_sqrt_ratio_at_tick: strictly increasing in tick (C06: exhaustive)")
    seen.append((tt, rr))
    return res


SQRT_CONTRACT = {lm.get_sqrt_ratio_at_tick: sqrt_ratio_contract}


# The ways demeter REJECTS an operation (C03/C04/...): explicit errors (DemeterError is a RuntimeError, require() raises
# AssertionError, ValueError for malformed arguments), a missing position / instrument key (KeyError), a zero divisor
# (ZeroDivisionError / decimal.DivisionByZero are ArithmeticError).  Anything else escaping an operation — TypeError,
# AttributeError, NameError, IndexError, UnboundLocalError ... — is a crash of the simulator, not a rejection: POs catch only
# REJECT, so a crash surfaces as a failed `no-exception-escapes:<Type>` obligation.
import decimal as _decimal
REJECT = (AssertionError, RuntimeError, ValueError, KeyError, ArithmeticError, _decimal.InvalidOperation)
