"""C09 — token order is immaterial: mirrored pools give the same economic results.

Relational (two-orientation) contracts.  Every obligation runs the REAL helper / market operation twice from its source:
  world A: token0 = QUOTE token (decimals dq), token1 = BASE token (decimals db), is_token0_quote = True
  world B: token0 = BASE  token (decimals db), token1 = QUOTE token (decimals dq), is_token0_quote = False   (the mirrored pool)
on the SAME symbolic base/quote inputs (price, amounts, liquidity, wallet), with the pool-level data mirrored
  tick -> -tick,  range [lo, up] -> [-up, -lo],  sqrt price s -> 2^192 / s,  per-token volumes / pending fees swapped,
and the postcondition relates the two results in base/quote terms.

Stated idealisation (T, recorded in the evidence of every obligation that uses it; DESIGN section 4/C09):
  * integer floors are dropped: int(x) of a real is x, a // b is the exact quotient (engine switch `ideal_floors`);
  * TickMath is exactly multiplicative under mirroring: f(-t) * f(t) == 2^192 (real-valued f: range, strictly increasing);
    the real function satisfies this to 2.4e-10 relative over the whole tick range and to 1e-12 for |t| <= 700000
    (exhaustive obligation `tick-math/mirror-identity`, X).
What the proofs therefore decide is what the property targets — an orientation slip (a token0/token1, base/quote, decimals or
tick-sign mix-up in one branch of one helper) — not the last-unit rounding, which the statement's 1e-12 / 0.1 % tolerances
absorb for non-dust amounts.  The same clauses are evaluated natively (real Decimal / integer arithmetic, real TickMath) on
seeded non-dust inputs with the statement's tolerance: S.close(a, b, rel).
Range membership is half-open on the tick axis ([lower, upper) contains `lower`), which mirroring turns into (−upper, −lower]:
the fee clause is therefore stated for closes that are not exactly on a range boundary tick (the statement's "in, below or
above the range").
"""
from decimal import Decimal
import z3
from pyvc.api import proof, native, exact, spec
from pyvc.sym import SV, INT, DEC, BOOL
from demeter import TokenInfo, Broker, MarketInfo
from demeter.broker import Asset, MarketStatus
from demeter.uniswap import liquitidy_math as lm, helper as uh, UniLpMarket, UniV3Pool, UniswapMarketStatus
from demeter.uniswap import market as umarket, core as ucore
from demeter.uniswap.core import V3CoreLib
from demeter.uniswap._typing import Position, PositionInfo
from .common import MIN_TICK, MAX_TICK, MIN_SQRT, MAX_SQRT, Q96, REJECT
from .c06 import FLOOR_LOOPS
from .worlds import World, series, frame, T0, T1
import pandas as pd

Q192 = 2 ** 192
def _pow_uninterpreted(interp, A, B, a_raw, b_raw):
    """x ** y with a symbolic exponent (estimate_ratio's 1.0001 ** (tick / 2)): an unconstrained positive real.  The deductive
       obligations never depend on it (the in-range estimate helpers are the bounded obligations at the end of this file)."""
    r = interp.path.fresh_real("pow")
    interp.path.assume(r > 0, "x ** y (symbolic exponent): an unconstrained positive real")
    return SV(r, A.ty if A.ty in (DEC,) else "float")


IDEAL = {"ideal_floors": True, "sqrt_uf": True, "feas_linear": True, "pow_model": _pow_uninterpreted, "native_samples": {"quick": 40, "thorough": 400}}
DECIMALS = {"quick": [{"dq": 6, "db": 18}, {"dq": 18, "db": 6}],
            "thorough": [{"dq": a, "db": b} for a in (6, 8, 18) for b in (6, 8, 18)]}


# ------------------------------------------------------------------------------------------------ idealised TickMath contract
def ideal_sqrt_ratio(interp, args, kwargs):
    """CONTRACT (idealised, see module docstring) of liquitidy_math.get_sqrt_ratio_at_tick for the relational obligations:
       a real-valued function of the tick with MIN_SQRT <= f(t) <= MAX_SQRT for valid ticks, strictly increasing, and
       f(-t) * f(t) == 2^192.  Range / monotonicity are C06's obligations on the real function; the mirror identity is the
       exhaustive obligation tick-math/mirror-identity below (to 2.4e-10 relative)."""
    t = args[0] if args else kwargs["tick"]
    p = interp.path
    if isinstance(t, SV):
        tt = t.t if t.ty == INT else z3.ToInt(t.t)
    else:
        tt = z3.IntVal(int(t))
    inr = z3.And(tt >= MIN_TICK, tt <= MAX_TICK)
    if interp.spec_depth == 0:
        p.vc("get_sqrt_ratio_at_tick/requires-tick-in-range", inr, kind="callee-pre")
    f = p.uf("sqrt_ratio_R", z3.IntSort(), z3.RealSort())
    rr = f(tt)
    p.assume(z3.Implies(inr, z3.And(rr >= MIN_SQRT, rr <= MAX_SQRT)), "contract get_sqrt_ratio_at_tick: MIN_SQRT <= result <= MAX_SQRT (C06)")
    seen = p.symtab.setdefault(("sqrtR_seen", p.path_id), [])
    for (t2, r2) in seen:
        if tt.eq(t2):
            continue
        p.assume(z3.And(z3.Implies(tt < t2, rr < r2), z3.Implies(tt > t2, rr > r2), z3.Implies(tt == t2, rr == r2)),
                 "contract get_sqrt_ratio_at_tick: strictly increasing in tick (C06: exhaustive)")
        p.assume(z3.Implies(tt == -t2, rr * r2 == z3.RealVal(Q192)),
                 "IDEALISED: f(-t) * f(t) == 2^192 exactly (real TickMath: within 2.4e-10 relative, exhaustive obligation tick-math/mirror-identity)")
    # f(-t) for t itself (t = 0 and self-mirror) is covered by the pair rule when -t is seen later; f(0)^2 = 2^192:
    p.assume(z3.Implies(tt == 0, rr == z3.RealVal(Q96)), "contract get_sqrt_ratio_at_tick: f(0) == 2^96 (ground evaluation)")
    seen.append((tt, rr))
    return SV(rr, DEC)


def floor_tick_contract(interp, args, kwargs):
    """CONTRACT of helper._floor_tick(estimate, sqrt_price_x96) — the common tail of sqrt_price_x96_to_tick and
       _sqrt_price_to_tick (obligations: C06 `sqrt_price_x96_to_tick/floor`, `_sqrt_price_to_tick/floor`, proved there for an
       arbitrary estimate):  requires MIN_SQRT <= x < MAX_SQRT;  ensures MIN_TICK <= r < MAX_TICK and f(r) <= x < f(r+1);
       r is a function of x.  (f(-r), f(-r-1) are named as well, so that the mirror identity of f is instantiated at them.)"""
    from pyvc.sym import lift, as_real_term
    p = interp.path
    x = as_real_term(lift(args[1]))
    p.vc("_floor_tick/requires:MIN_SQRT<=x<MAX_SQRT", z3.And(x >= MIN_SQRT, x < MAX_SQRT), kind="callee-pre")
    r = p.uf("floor_tick_of", z3.RealSort(), z3.IntSort())(x)
    p.assume(z3.And(r >= MIN_TICK, r < MAX_TICK), "contract _floor_tick: result is a valid tick below MAX_TICK (C06)")
    f0 = ideal_sqrt_ratio(interp, [SV(r, INT)], {})
    f1 = ideal_sqrt_ratio(interp, [SV(r + 1, INT)], {})
    p.assume(z3.And(f0.t <= x, x < f1.t), "contract _floor_tick: f(r) <= x < f(r+1) — greatest tick not above the input (C06)")
    depth, interp.spec_depth = interp.spec_depth, interp.spec_depth + 1     # naming terms only: no callee-pre obligation
    try:
        ideal_sqrt_ratio(interp, [SV(-r, INT)], {})
        ideal_sqrt_ratio(interp, [SV(-r - 1, INT)], {})
    finally:
        interp.spec_depth = depth
    return SV(r, INT)


IDEAL_SQRT = {lm.get_sqrt_ratio_at_tick: ideal_sqrt_ratio}
IDEAL_TICKS = {lm.get_sqrt_ratio_at_tick: ideal_sqrt_ratio, uh._floor_tick: floor_tick_contract}


def _decs(S):
    return S.shape["dq"], S.shape["db"]


def _atomic_ok(S, p, dq, db):
    """the price corresponds to a sqrt price inside the TickMath range in both orientations (type invariant of a pool price)"""
    a = exact(p) * 10 ** dq / 10 ** db          # token1(quote)/token0(base) atomic price of the mirrored pool B
    S.assume(a * Q192 >= MIN_SQRT * MIN_SQRT and a * Q192 < MAX_SQRT * MAX_SQRT)
    S.assume(Q192 >= MIN_SQRT * MIN_SQRT * a and Q192 < MAX_SQRT * MAX_SQRT * a)
    S.native_assume(Decimal("1e-16") < a and a < Decimal("1e16"), "non-dust sqrt price (native tolerance 1e-12)")


def _mirror_hint(t):
    """proof hint: name f(-t) and f(-t-1), so that the mirror identity of the TickMath contract is instantiated at them"""
    lm.get_sqrt_ratio_at_tick(-t)
    lm.get_sqrt_ratio_at_tick(-t - 1)


# ================================================================================================ pure helpers
@proof("C09", "helpers/price<->sqrt-price:mirrored", strength="U", shapes=DECIMALS, config=IDEAL, contracts=IDEAL_SQRT)
def po_price_sqrt(S):
    """base_unit_price_to_sqrt_price_x96 of the same base/quote price in the two orientations gives reciprocal sqrt prices;
       sqrt_price_x96_to_base_unit_price / tick_to_base_unit_price of mirrored arguments give the same base/quote price."""
    dq, db = _decs(S)
    p = S.dec("price", 0, None, lo_strict=True)
    _atomic_ok(S, p, dq, db)
    sA = uh.base_unit_price_to_sqrt_price_x96(p, dq, db, True)
    sB = uh.base_unit_price_to_sqrt_price_x96(p, db, dq, False)
    S.check("sqrt-prices-reciprocal:sA*sB==2^192", S.close(sA * sB, Q192))
    S.check("sqrt-price-in-TickMath-range", MIN_SQRT <= sA and sA < MAX_SQRT and MIN_SQRT <= sB and sB < MAX_SQRT)
    S.check("round-trip-A", S.close(uh.sqrt_price_x96_to_base_unit_price(sA, dq, db, True), p))
    S.check("round-trip-B", S.close(uh.sqrt_price_x96_to_base_unit_price(sB, db, dq, False), p))
    s = S.dec("sqrt_price_x96", MIN_SQRT, MAX_SQRT)
    S.native_assume(s > 2 ** 56)
    pA = uh.sqrt_price_x96_to_base_unit_price(s, dq, db, True)
    pB = uh.sqrt_price_x96_to_base_unit_price(Q192 / s, db, dq, False)
    S.check("sqrt->price:same-base/quote-price", S.close(pA, pB))
    t = S.int("tick", MIN_TICK, MAX_TICK)
    S.native_assume(-700000 <= t and t <= 700000)
    S.check("tick->price:same-base/quote-price", S.close(uh.tick_to_base_unit_price(t, dq, db, True), uh.tick_to_base_unit_price(-t, db, dq, False)))


@proof("C09", "helpers/nearest_usable_tick:odd-symmetric", strength="U",
       shapes={"quick": [{"spacing": 10}, {"spacing": 60}], "thorough": [{"spacing": s} for s in (1, 10, 60, 200)]})
def po_nearest_symmetric(S):
    """Rounding to usable ticks commutes with mirroring: nearest_usable_tick(-t) == -nearest_usable_tick(t) (no idealisation)."""
    sp = S.shape["spacing"]
    t = S.int("tick", MIN_TICK, MAX_TICK)
    S.check("nearest(-t)==-nearest(t)", uh.nearest_usable_tick(-t, sp) == -uh.nearest_usable_tick(t, sp))


@proof("C09", "helpers/price->tick:mirrored-within-one-tick", strength="U", shapes=DECIMALS, config=IDEAL, contracts=IDEAL_TICKS)
def po_price_tick(S):
    """base_unit_price_to_tick of the same base/quote price: the mirrored pool's tick is the negated tick (the floor turns into
       a ceiling under mirroring: -t - 1 when the price is strictly inside a tick, -t on a boundary);
       V3CoreLib.quote_price_pair_to_tick returns the mirrored (lower, upper) pair with the same within-one-tick relation."""
    dq, db = _decs(S)
    p = S.dec("price", 0, None, lo_strict=True)
    _atomic_ok(S, p, dq, db)
    tA = uh.base_unit_price_to_tick(p, dq, db, True)
    tB = uh.base_unit_price_to_tick(p, db, dq, False)
    _mirror_hint(tA)
    S.check("mirrored-tick-is-negated-tick(floor->ceil)", tB == -tA or tB == -tA - 1)
    p2 = S.dec("upper_price", 0, None, lo_strict=True)
    _atomic_ok(S, p2, dq, db)
    S.assume(p < p2)
    poolA = UniV3Pool(TokenInfo("QUOTE", dq), TokenInfo("BASE", db), 0.05, TokenInfo("QUOTE", dq))
    poolB = UniV3Pool(TokenInfo("BASE", db), TokenInfo("QUOTE", dq), 0.05, TokenInfo("QUOTE", dq))
    loA, upA = V3CoreLib.quote_price_pair_to_tick(poolA, p, p2)
    loB, upB = V3CoreLib.quote_price_pair_to_tick(poolB, p, p2)
    _mirror_hint(loA)
    _mirror_hint(upA)
    S.check("pair:lower<=upper(A)", loA <= upA)
    S.check("pair:lower<=upper(B)", loB <= upB)
    S.check("pair:lowerA-mirrors-upperB", loA == -upB or loA == -upB - 1)
    S.check("pair:upperA-mirrors-lowerB", upA == -loB or upA == -loB - 1)


# ================================================================================================ amounts and liquidity
def _range_and_price(S):
    lo = S.int("lower_tick", MIN_TICK, MAX_TICK)
    up = S.int("upper_tick", MIN_TICK, MAX_TICK)
    S.assume(lo < up)
    S.native_assume(-600000 <= lo and up <= 600000)
    s = S.int("sqrt_price_x96", MIN_SQRT, MAX_SQRT)
    S.native_assume(s > 2 ** 56 and s < 2 ** 136)
    return lo, up, s, int(Decimal(Q192) / s)       # the mirrored pool's sqrt price 2^192 / s (an integer natively)


@proof("C09", "get_amounts,get_token_amounts:mirrored", strength="U", shapes=DECIMALS, config=IDEAL, contracts=IDEAL_SQRT,
       covers=["below", "inside", "above"])
def po_amounts(S):
    """The amounts a position holds, in base/quote terms, are the same in the pool and in its mirror — price below, inside,
       above and exactly on the boundaries of the range."""
    dq, db = _decs(S)
    lo, up, s, sM = _range_and_price(S)
    L = S.int("liquidity", 0, 10 ** 30)
    qA, bA = lm.get_amounts(s, lo, up, L, dq, db)                # A: token0 = quote, token1 = base
    bB, qB = lm.get_amounts(sM, -up, -lo, L, db, dq)       # B: token0 = base,  token1 = quote
    S.check("quote-amount-equal", S.close(qA, qB))
    S.check("base-amount-equal", S.close(bA, bB))
    poolA = UniV3Pool(TokenInfo("QUOTE", dq), TokenInfo("BASE", db), 0.05, TokenInfo("QUOTE", dq))
    poolB = UniV3Pool(TokenInfo("BASE", db), TokenInfo("QUOTE", dq), 0.05, TokenInfo("QUOTE", dq))
    q2, b2 = V3CoreLib.get_token_amounts(poolA, PositionInfo(lo, up), s, L)
    b3, q3 = V3CoreLib.get_token_amounts(poolB, PositionInfo(-up, -lo), sM, L)
    S.check("get_token_amounts:quote-equal", S.close(q2, q3))
    S.check("get_token_amounts:base-equal", S.close(b2, b3))
    fl = lm.get_sqrt_ratio_at_tick(lo)
    fu = lm.get_sqrt_ratio_at_tick(up)
    if s <= fl:
        S.cover("below")
    elif s < fu:
        S.cover("inside")
    else:
        S.cover("above")


@proof("C09", "get_liquidity:mirrored", strength="U", shapes=DECIMALS, config=IDEAL, contracts=IDEAL_SQRT, covers=["below", "inside", "above"])
def po_liquidity(S):
    """Minting with the same base/quote amounts gives the same liquidity in the pool and in its mirror."""
    dq, db = _decs(S)
    lo, up, s, sM = _range_and_price(S)
    aq = S.dec("quote_amount", 0, 10 ** 12)
    ab = S.dec("base_amount", 0, 10 ** 12)
    fl = lm.get_sqrt_ratio_at_tick(lo)
    fu = lm.get_sqrt_ratio_at_tick(up)
    if S.mode == "symbolic":
        # proof cuts (each proved here as its own obligation, then used): the two LiquidityAmounts formulas are mirror images of one another
        # on every pair of bounds get_liquidity can pass them; the min / branch structure of get_liquidity is then a linear matter
        flm, fum = lm.get_sqrt_ratio_at_tick(-up), lm.get_sqrt_ratio_at_tick(-lo)
        wq, wb = lm.to_wei(aq, dq), lm.to_wei(ab, db)
        if fl < s and s < fu:
            S.lemma("cut:amount0-formula(A,price..upper)==amount1-formula(B,lower'..price')", S.close(lm.get_liquidity_for_amount0(s, fu, wq), lm.get_liquidity_for_amount1(flm, sM, wq)))
            S.lemma("cut:amount1-formula(A,lower..price)==amount0-formula(B,price'..upper')", S.close(lm.get_liquidity_for_amount1(fl, s, wb), lm.get_liquidity_for_amount0(sM, fum, wb)))
        S.lemma("cut:amount0-formula(A,whole-range)==amount1-formula(B,whole-range)", S.close(lm.get_liquidity_for_amount0(fl, fu, wq), lm.get_liquidity_for_amount1(flm, fum, wq)))
        S.lemma("cut:amount1-formula(A,whole-range)==amount0-formula(B,whole-range)", S.close(lm.get_liquidity_for_amount1(fl, fu, wb), lm.get_liquidity_for_amount0(flm, fum, wb)))
    LA = lm.get_liquidity(s, lo, up, aq, ab, dq, db)
    LB = lm.get_liquidity(sM, -up, -lo, ab, aq, db, dq)
    S.native_assume(LA > 10 ** 14)
    S.check("liquidity-equal", S.close(LA, LB))
    if s <= fl:
        S.cover("below")
    elif s < fu:
        S.cover("inside")
    else:
        S.cover("above")


# ------------------------------------------------------------------------------------------------ relational callee contracts
# Callers (V3CoreLib.new_position, every UniLpMarket operation) are verified against these contracts, not against the bodies:
# each result is a FUNCTION of the arguments (uninterpreted), and two calls with mirrored arguments give mirrored results.
# The mirror clause of each contract is exactly what the obligation named in its docstring proves from the real body.
def _r(x):
    from pyvc.sym import lift, as_real_term
    return as_real_term(lift(x))


def _i(x):
    from pyvc.sym import lift, as_int_term
    v = lift(x)
    return as_int_term(v) if v.ty in (INT, BOOL) else z3.ToInt(v.t)


def rel_get_amounts(interp, args, kwargs):
    """CONTRACT of liquitidy_math.get_amounts(s, tickA, tickB, L, d0, d1): two non-negative amounts (C07), zero for zero liquidity,
       a function of the arguments; MIRROR (obligation get_amounts,get_token_amounts:mirrored): get_amounts(2^192/s, -tickB, -tickA, L, d1, d0)
       returns the same two amounts in swapped order."""
    p = interp.path
    sq, ta, tb, liq, d0, d1 = args[:6]
    a = (_r(sq), _i(ta), _i(tb), _r(liq), z3.IntVal(int(d0)), z3.IntVal(int(d1)))
    f0 = p.uf("rel_amount0", z3.RealSort(), z3.IntSort(), z3.IntSort(), z3.RealSort(), z3.IntSort(), z3.IntSort(), z3.RealSort())
    f1 = p.uf("rel_amount1", z3.RealSort(), z3.IntSort(), z3.IntSort(), z3.RealSort(), z3.IntSort(), z3.IntSort(), z3.RealSort())
    r0, r1 = f0(*a), f1(*a)
    p.assume(z3.And(r0 >= 0, r1 >= 0, z3.Implies(a[3] == 0, z3.And(r0 == 0, r1 == 0))),
             "contract get_amounts: non-negative, zero for zero liquidity, a function of its arguments (C07)")
    seen = p.symtab.setdefault(("rel_amounts_seen", p.path_id), [])
    for (b, q0, q1) in seen:
        if int(d0) == int(str(b[5])) and int(d1) == int(str(b[4])):
            p.assume(z3.Implies(z3.And(a[0] * b[0] == z3.RealVal(Q192), a[1] == -b[2], a[2] == -b[1], a[3] == b[3]), z3.And(r0 == q1, r1 == q0)),
                     "contract get_amounts: mirrored arguments give the swapped amounts (proved: C09 get_amounts,get_token_amounts:mirrored)")
    seen.append((a, r0, r1))
    return SV(r0, DEC), SV(r1, DEC)


def rel_get_liquidity(interp, args, kwargs):
    """CONTRACT of liquitidy_math.get_liquidity(s, tickA, tickB, amount0, amount1, d0, d1): non-negative (C07), a function of the
       arguments; MIRROR (obligation get_liquidity:mirrored): get_liquidity(2^192/s, -tickB, -tickA, amount1, amount0, d1, d0) is the same."""
    p = interp.path
    sq, ta, tb, a0, a1, d0, d1 = args[:7]
    a = (_r(sq), _i(ta), _i(tb), _r(a0), _r(a1), z3.IntVal(int(d0)), z3.IntVal(int(d1)))
    f = p.uf("rel_liquidity", z3.RealSort(), z3.IntSort(), z3.IntSort(), z3.RealSort(), z3.RealSort(), z3.IntSort(), z3.IntSort(), z3.RealSort())
    r = f(*a)
    p.assume(r >= 0, "contract get_liquidity: non-negative, a function of its arguments (C07)")
    seen = p.symtab.setdefault(("rel_liquidity_seen", p.path_id), [])
    for (b, r2) in seen:
        if int(d0) == int(str(b[6])) and int(d1) == int(str(b[5])):
            p.assume(z3.Implies(z3.And(a[0] * b[0] == z3.RealVal(Q192), a[1] == -b[2], a[2] == -b[1], a[3] == b[4], a[4] == b[3]), r == r2),
                     "contract get_liquidity: mirrored arguments give the same liquidity (proved: C09 get_liquidity:mirrored)")
    seen.append((a, r))
    return SV(r, DEC)


def rel_sqrt_of_price(interp, args, kwargs):
    """CONTRACT of helper.base_unit_price_to_sqrt_price_x96(price, d0, d1, is_token0_quote): positive, a function of the arguments;
       MIRROR (obligation helpers/price<->sqrt-price:mirrored): the same price with decimals swapped and the other orientation gives 2^192 / result."""
    p = interp.path
    price, d0, d1, q0 = args[:4]
    f = p.uf("rel_sqrt_of_price", z3.RealSort(), z3.IntSort(), z3.IntSort(), z3.BoolSort(), z3.RealSort())
    pr = _r(price)
    r = f(pr, z3.IntVal(int(d0)), z3.IntVal(int(d1)), z3.BoolVal(bool(q0)))
    p.assume(z3.And(r >= MIN_SQRT, r < MAX_SQRT), "contract base_unit_price_to_sqrt_price_x96: MIN_SQRT <= result < MAX_SQRT for a pool price inside the TickMath range (proved: C09 helpers/price<->sqrt-price:mirrored), a function of the arguments")
    seen = p.symtab.setdefault(("rel_sqrtp_seen", p.path_id), [])
    for (pr2, e0, e1, o0, r2) in seen:
        if int(d0) == e1 and int(d1) == e0 and bool(q0) != o0:
            p.assume(z3.Implies(pr == pr2, r * r2 == z3.RealVal(Q192)),
                     "contract base_unit_price_to_sqrt_price_x96: mirrored orientation gives the reciprocal sqrt price (proved: C09 helpers/price<->sqrt-price:mirrored)")
    seen.append((pr, int(d0), int(d1), bool(q0), r))
    return SV(r, DEC)


def rel_price_to_tick(interp, args, kwargs):
    """CONTRACT of helper.base_unit_price_to_tick(price, d0, d1, is_token0_quote): a valid tick, a function of the arguments;
       MIRROR (obligation helpers/price->tick:mirrored-within-one-tick): the mirrored orientation returns -t or -t - 1."""
    p = interp.path
    price, d0, d1, q0 = args[:4]
    f = p.uf("rel_tick_of_price", z3.RealSort(), z3.IntSort(), z3.IntSort(), z3.BoolSort(), z3.IntSort())
    pr = _r(price)
    r = f(pr, z3.IntVal(int(d0)), z3.IntVal(int(d1)), z3.BoolVal(bool(q0)))
    p.assume(z3.And(r >= MIN_TICK, r < MAX_TICK), "contract base_unit_price_to_tick: a valid tick for a pool price inside the TickMath range (C06), a function of the arguments")
    seen = p.symtab.setdefault(("rel_tickp_seen", p.path_id), [])
    for (pr2, e0, e1, o0, r2) in seen:
        if int(d0) == e1 and int(d1) == e0 and bool(q0) != o0:
            p.assume(z3.Implies(pr == pr2, z3.Or(r == -r2, r == -r2 - 1)),
                     "contract base_unit_price_to_tick: mirrored orientation gives -t or -t-1 (proved: C09 helpers/price->tick:mirrored-within-one-tick)")
    seen.append((pr, int(d0), int(d1), bool(q0), r))
    return SV(r, INT)


def rel_nearest_usable(interp, args, kwargs):
    """CONTRACT of helper.nearest_usable_tick(tick, spacing): a multiple of the spacing inside the valid range (C06
       nearest_usable_tick/nearest-multiple-in-range), a function of the arguments;
       MIRROR (obligation helpers/nearest_usable_tick:odd-symmetric): nearest(-t) == -nearest(t)."""
    p = interp.path
    t, sp = args[0], int(args[1])
    tt = _i(t)
    r = p.uf("rel_nearest_usable", z3.IntSort(), z3.IntSort(), z3.IntSort())(tt, z3.IntVal(sp))
    p.assume(z3.And(r % sp == 0, r >= MIN_TICK, r <= MAX_TICK), "contract nearest_usable_tick: a multiple of the spacing inside the valid range (C06)")
    seen = p.symtab.setdefault(("rel_nearest_seen", p.path_id), [])
    for (t2, sp2, r2) in seen:
        if sp2 == sp:
            p.assume(z3.Implies(tt == -t2, r == -r2), "contract nearest_usable_tick: odd-symmetric (proved: C09 helpers/nearest_usable_tick:odd-symmetric)")
    seen.append((tt, sp, r))
    return SV(r, INT)


REL = {ucore.get_amounts: rel_get_amounts, uh.base_unit_price_to_tick: rel_price_to_tick, uh.nearest_usable_tick: rel_nearest_usable, ucore.get_liquidity: rel_get_liquidity, lm.get_sqrt_ratio_at_tick: ideal_sqrt_ratio,
       umarket.base_unit_price_to_sqrt_price_x96: rel_sqrt_of_price, uh._floor_tick: floor_tick_contract}


@proof("C09", "new_position,close_position:mirrored", strength="U", shapes=DECIMALS, config=IDEAL, contracts=REL)
def po_new_position(S):
    """V3CoreLib.new_position / close_position against the relational contracts of get_liquidity / get_amounts."""
    dq, db = _decs(S)
    lo, up, s, sM = _range_and_price(S)
    aq = S.dec("quote_amount", 0, 10 ** 12)
    ab = S.dec("base_amount", 0, 10 ** 12)
    poolA = UniV3Pool(TokenInfo("QUOTE", dq), TokenInfo("BASE", db), 0.05, TokenInfo("QUOTE", dq))
    poolB = UniV3Pool(TokenInfo("BASE", db), TokenInfo("QUOTE", dq), 0.05, TokenInfo("QUOTE", dq))
    uqA, ubA, lA, kA = V3CoreLib.new_position(poolA, aq, ab, lo, up, s)
    ubB, uqB, lB, kB = V3CoreLib.new_position(poolB, ab, aq, -up, -lo, sM)
    S.native_assume(lA > 10 ** 14)
    S.check("new_position:liquidity-equal", S.close(lA, lB))
    S.check("new_position:quote-used-equal", S.close(uqA, uqB, "1e-12", Decimal("1e-12")))
    S.check("new_position:base-used-equal", S.close(ubA, ubB, "1e-12", Decimal("1e-12")))
    S.check("new_position:keys-mirrored", kA.lower_tick == -kB.upper_tick and kA.upper_tick == -kB.lower_tick)
    L = S.int("liquidity_to_close", 0, 10 ** 30)
    qA, bA = V3CoreLib.close_position(poolA, kA, L, s)
    bB, qB = V3CoreLib.close_position(poolB, kB, L, sM)
    S.check("close_position:quote-equal", S.close(qA, qB))
    S.check("close_position:base-equal", S.close(bA, bB))


# ================================================================================================ market level: a pool and its mirror
@native
def _market(d0, d1, q0, fee, ts, row, last_tick, wallet0, wallet1, positions):
    """real Broker + UniLpMarket on bar `ts` with the given (symbolic) status row, wallet and positions
       (positions: list of (lower, upper, liquidity, pending0, pending1, lower_price, upper_price, init_price))"""
    t0, t1 = TokenInfo("QUOTE" if q0 else "BASE", d0), TokenInfo("BASE" if q0 else "QUOTE", d1)
    pool = UniV3Pool(t0, t1, fee, t0 if q0 else t1)
    actions = []
    broker = Broker(record_action_callback=actions.append)
    market = UniLpMarket(MarketInfo("uni"), pool)
    broker.add_market(market)
    market._market_status = UniswapMarketStatus(ts, pd.Series(row, dtype=object))
    market._price_status = pd.Series({"QUOTE": Decimal(1), "BASE": row["price"]}, dtype=object)
    market.last_tick = last_tick
    broker._assets[t0] = Asset(t0, wallet0)
    broker._assets[t1] = Asset(t1, wallet1)
    keys = []
    for (lo, up, liq, p0, p1, lp, upp, ip) in positions:
        k = PositionInfo(lo, up)
        keys.append(k)
        market._positions[k] = Position(p0, p1, liq, lp, upp, ip)
    return World(broker=broker, market=market, pool=pool, actions=actions, keys=keys, base=pool.base_token, quote=pool.quote_token)


def pair(S, npos=1, fee=0.05):
    """World A (token0 = quote) and its mirror B (token0 = base) on the same symbolic base/quote data."""
    dq, db = _decs(S)
    price = S.dec("price", 0, None, lo_strict=True)
    _atomic_ok(S, price, dq, db)
    close = S.int("closeTick", MIN_TICK, MAX_TICK)
    last = S.int("last_tick", MIN_TICK, MAX_TICK)
    cur = S.int("currentLiquidity", 1, 10 ** 30)
    vq = S.int("volume_quote_atomic", 0, 10 ** 30)
    vb = S.int("volume_base_atomic", 0, 10 ** 30)
    wq = S.dec("wallet_quote", 0, 10 ** 12)
    wb = S.dec("wallet_base", 0, 10 ** 12)
    pa, pb = [], []
    for i in range(npos):
        lo = S.int(f"pos{i}_lower", MIN_TICK, MAX_TICK)
        up = S.int(f"pos{i}_upper", MIN_TICK, MAX_TICK)
        S.assume(lo < up)
        S.native_assume(-600000 <= lo and up <= 600000)
        L = S.int(f"pos{i}_liquidity", 0, 10 ** 30)
        fq = S.dec(f"pos{i}_pending_quote", 0, 10 ** 12)
        fb = S.dec(f"pos{i}_pending_base", 0, 10 ** 12)
        lp = S.dec(f"pos{i}_lower_price", 0, None, lo_strict=True)
        upp = S.dec(f"pos{i}_upper_price", 0, None, lo_strict=True)
        ip = S.dec(f"pos{i}_init_price", 0, None, lo_strict=True)
        pa.append((lo, up, L, fq, fb, lp, upp, ip))
        pb.append((-up, -lo, L, fb, fq, lp, upp, ip))
    for i in range(npos):
        for j in range(i):
            S.assume(pa[i][0] != pa[j][0] or pa[i][1] != pa[j][1], "distinct position keys")
    A = _market(dq, db, True, fee, T0, {"closeTick": close, "currentLiquidity": cur, "inAmount0": vq, "inAmount1": vb, "price": price}, last, wq, wb, pa)
    B = _market(db, dq, False, fee, T0, {"closeTick": -close, "currentLiquidity": cur, "inAmount0": vb, "inAmount1": vq, "price": price}, -last, wb, wq, pb)
    return A, B


@native
def _bq(w):
    """observable economic state in base/quote terms: wallet, positions keyed by A-orientation order"""
    m = w.market
    out = {"wallet_base": w.broker._assets[w.base].balance, "wallet_quote": w.broker._assets[w.quote].balance, "positions": []}
    items = list(m._positions.items())
    for k, p in items:
        fb, fq = m._convert_pair(p.pending_amount0, p.pending_amount1)
        lo, up = (k.lower_tick, k.upper_tick)
        out["positions"].append({"key": (lo, up), "liquidity": p.liquidity, "pending_base": fb, "pending_quote": fq,
                                 "lower_price": p.lower_price, "upper_price": p.upper_price, "init_price": p.init_price, "transferred": p.transferred})
    out["n_actions"] = len(w.actions)
    return out


def same_state(S, label, A, B):
    """every wallet balance and every position (liquidity, pending fees, price bounds) agrees in base/quote terms; keys are mirrored"""
    a, b = _bq(A), _bq(B)
    S.check(f"{label}:wallet-base", S.close(a["wallet_base"], b["wallet_base"], "1e-12", Decimal("1e-12")))
    S.check(f"{label}:wallet-quote", S.close(a["wallet_quote"], b["wallet_quote"], "1e-12", Decimal("1e-12")))
    S.check(f"{label}:position-count", len(a["positions"]) == len(b["positions"]))
    S.check(f"{label}:action-count", a["n_actions"] == b["n_actions"])
    if len(a["positions"]) == len(b["positions"]):
        for i in range(len(a["positions"])):
            x, y = a["positions"][i], b["positions"][i]
            S.check(f"{label}:pos{i}:keys-mirrored", x["key"][0] == -y["key"][1] and x["key"][1] == -y["key"][0])
            S.check(f"{label}:pos{i}:liquidity", S.close(x["liquidity"], y["liquidity"]))
            S.check(f"{label}:pos{i}:pending-base", S.close(x["pending_base"], y["pending_base"], "1e-12", Decimal("1e-12")))
            S.check(f"{label}:pos{i}:pending-quote", S.close(x["pending_quote"], y["pending_quote"], "1e-12", Decimal("1e-12")))
            S.check(f"{label}:pos{i}:price-bounds", S.close(x["lower_price"], y["lower_price"]) and S.close(x["upper_price"], y["upper_price"])
                    and S.close(x["init_price"], y["init_price"]))


def same_outcome(S, label, fa, fb, n):
    """run the same base/quote operation in both worlds: both accept or both reject; accepted results agree componentwise"""
    ra = rb = None
    ea = eb = False
    try:
        ra = fa()
    except REJECT:
        ea = True
    try:
        rb = fb()
    except REJECT:
        eb = True
    S.check(f"{label}:accepted-in-both-or-rejected-in-both", ea == eb)
    if not ea and not eb:
        S.cover("accepted")
        for i in range(n):
            S.check(f"{label}:result[{i}]", S.close(ra[i], rb[i], "1e-12", Decimal("1e-12")))
    return ra, rb


@proof("C09", "market/position-amounts,status,balance:mirrored", strength="S", shapes=DECIMALS, config=IDEAL, contracts=REL)
def po_views(S):
    """get_position_amount / get_position_status / get_market_balance report the same base/quote amounts and values."""
    A, B = pair(S, 1)
    kA, kB = A.keys[0], B.keys[0]
    qA, bA = A.market.get_position_amount(kA)
    bB, qB = B.market.get_position_amount(kB)
    S.check("get_position_amount:quote", S.close(qA, qB))
    S.check("get_position_amount:base", S.close(bA, bB))
    sa, sb = A.market.get_position_status(kA), B.market.get_position_status(kB)
    S.check("status:liquidity_value", S.close(sa.liquidity_value, sb.liquidity_value))
    S.check("status:pending_value", S.close(sa.pending_value, sb.pending_value))
    S.check("status:value", S.close(sa.value, sb.value))
    S.check("status:amounts", S.close(sa.amount0, sb.amount1) and S.close(sa.amount1, sb.amount0))
    S.check("status:H,L,P", S.close(sa.H, sb.H) and S.close(sa.L, sb.L) and S.close(sa.P, sb.P))
    ba, bb = A.market.get_market_balance(), B.market.get_market_balance()
    S.check("balance:net_value", S.close(ba.net_value, bb.net_value))
    S.check("balance:liquidity_value", S.close(ba.liquidity_value, bb.liquidity_value))
    S.check("balance:base_uncollected", S.close(ba.base_uncollected, bb.base_uncollected))
    S.check("balance:quote_uncollected", S.close(ba.quote_uncollected, bb.quote_uncollected))
    S.check("balance:base_in_position", S.close(ba.base_in_position, bb.base_in_position))
    S.check("balance:quote_in_position", S.close(ba.quote_in_position, bb.quote_in_position))
    S.check("tick_to_price", S.close(A.market.tick_to_price(kA.lower_tick), B.market.tick_to_price(kB.upper_tick)))


MKT = {"quick": [{"dq": 6, "db": 18, "npos": 1}, {"dq": 18, "db": 6, "npos": 0}],
       "thorough": [{"dq": a, "db": b, "npos": n} for (a, b) in ((6, 18), (18, 6), (8, 18), (18, 18)) for n in (0, 1, 2)]}


@proof("C09", "market/add_liquidity_by_tick:mirrored", strength="S", shapes=MKT, config=dict(IDEAL, max_seconds=600), contracts=REL, covers=("accepted",))
def po_add(S):
    """add_liquidity_by_tick with mirrored ticks and the same base/quote maxima: same used amounts, liquidity, wallet, position."""
    A, B = pair(S, S.shape["npos"])
    lo = S.int("lower_tick", MIN_TICK, MAX_TICK)
    up = S.int("upper_tick", MIN_TICK, MAX_TICK)
    S.native_assume(-600000 <= lo and lo < up and up <= 600000)
    bmax = S.dec("base_max", 0, 10 ** 12)
    qmax = S.dec("quote_max", 0, 10 ** 12)
    trim = S.bool("trim_tick")
    ra, rb = same_outcome(S, "add", lambda: A.market.add_liquidity_by_tick(lo, up, bmax, qmax, -1, -1, trim)[1:],
                          lambda: B.market.add_liquidity_by_tick(-up, -lo, bmax, qmax, -1, -1, trim)[1:], 3)
    same_state(S, "after-add", A, B)


@proof("C09", "market/remove_liquidity,collect_fee:mirrored", strength="S", shapes={"quick": DECIMALS["quick"], "thorough": DECIMALS["thorough"]},
       config=dict(IDEAL, max_seconds=600), contracts=REL, covers=("accepted",))
def po_remove(S):
    """remove_liquidity (with / without collecting) and collect_fee (token0/token1 caps mirrored) pay out the same base/quote amounts."""
    A, B = pair(S, 1)
    kA, kB = A.keys[0], B.keys[0]
    if S.bool("is_remove"):
        liq = S.int("liquidity_to_remove", 0, 10 ** 30)
        coll = S.bool("collect")
        same_outcome(S, "remove", lambda: A.market.remove_liquidity(kA, liq, coll), lambda: B.market.remove_liquidity(kB, liq, coll), 2)
    else:
        mq = S.dec("max_collect_quote", 0, 10 ** 12)
        mb = S.dec("max_collect_base", 0, 10 ** 12)
        same_outcome(S, "collect", lambda: A.market.collect_fee(kA, mq, mb), lambda: B.market.collect_fee(kB, mb, mq), 2)
    same_state(S, "after", A, B)


@proof("C09", "market/buy,sell,swap,even_rebalance:mirrored", strength="S", shapes=DECIMALS, config=IDEAL, contracts=REL, covers=("accepted",))
def po_swap(S):
    """Swaps are stated in base/quote terms and do not depend on the token order."""
    A, B = pair(S, 0)
    a = S.dec("amount", 0, 10 ** 12)
    which = S.int("which_operation", 0, 4)
    if which == 0:
        same_outcome(S, "buy", lambda: A.market.buy(a), lambda: B.market.buy(a), 3)
    elif which == 1:
        same_outcome(S, "sell", lambda: A.market.sell(a), lambda: B.market.sell(a), 3)
    elif which == 2:
        same_outcome(S, "swap(base->quote)", lambda: A.market.swap(a, A.base, A.quote), lambda: B.market.swap(a, B.base, B.quote), 2)
    elif which == 3:
        same_outcome(S, "swap(quote->base)", lambda: A.market.swap(a, A.quote, A.base), lambda: B.market.swap(a, B.quote, B.base), 2)
    else:
        same_outcome(S, "even_rebalance", lambda: A.market.even_rebalance(), lambda: B.market.even_rebalance(), 0)
    same_state(S, "after", A, B)


@proof("C09", "market/update(fee-accrual):mirrored", strength="S", shapes=MKT, config=IDEAL, contracts=REL)
def po_fee(S):
    """UniLpMarket.update() on mirrored bars (ticks negated, per-token volumes swapped) accrues the same base/quote fees.
       Range membership is half-open on the tick axis, so ticks exactly ON a range boundary are excluded (module docstring)."""
    A, B = pair(S, max(S.shape["npos"], 1))
    st = A.market._market_status.data
    for k in A.keys:
        for t in (st["closeTick"], A.market.last_tick):
            S.assume(t != k.lower_tick and t != k.upper_tick, "tick not exactly on a range boundary")
    A.market.update()
    B.market.update()
    same_state(S, "after-update", A, B)


@proof("C09", "market/add_liquidity(by-price):mirrored", strength="S", shapes=DECIMALS, config=dict(IDEAL, max_seconds=900), contracts=REL, covers=("accepted",))
def po_add_by_price(S):
    """add_liquidity(lower_quote_price, upper_quote_price, quote_max, base_max): same used amounts, liquidity, wallet and position.
       The price -> tick floor becomes a ceiling under mirroring, so the two pools can pick ticks one apart when a bound lies strictly
       inside a tick (helpers/price->tick:mirrored-within-one-tick); the equality of outcomes is stated for bounds ON tick boundaries."""
    A, B = pair(S, 0)
    lp = S.dec("lower_quote_price", 0, None, lo_strict=True)
    up = S.dec("upper_quote_price", 0, None, lo_strict=True)
    dq, db = _decs(S)
    _atomic_ok(S, lp, dq, db)
    _atomic_ok(S, up, dq, db)
    S.assume(lp < up)
    S.assume(uh.base_unit_price_to_tick(lp, db, dq, False) == -uh.base_unit_price_to_tick(lp, dq, db, True), "lower bound on a tick boundary")
    S.assume(uh.base_unit_price_to_tick(up, db, dq, False) == -uh.base_unit_price_to_tick(up, dq, db, True), "upper bound on a tick boundary")
    bmax = S.dec("base_max", 0, 10 ** 12)
    qmax = S.dec("quote_max", 0, 10 ** 12)
    same_outcome(S, "add", lambda: A.market.add_liquidity(lp, up, qmax, bmax)[1:], lambda: B.market.add_liquidity(lp, up, qmax, bmax)[1:], 3)
    same_state(S, "after-add", A, B)


def _strictly(S, t, lo, up):
    """the current tick is strictly below / inside / above the range (not within one tick of a boundary, where the floor of the
       mirrored price lands on the other side)"""
    S.assume(t < lo - 1 or (lo < t and t < up - 1) or t > up)


@proof("C09", "market/estimate_liquidity(out-of-range):mirrored", strength="S", shapes=DECIMALS, config=IDEAL, contracts=REL, covers=("below", "above"))
def po_estimate_out(S):
    """estimate_liquidity with the price strictly below or above the range: same liquidity and same base/quote amounts."""
    A, B = pair(S, 1)
    kA, kB = A.keys[0], B.keys[0]
    v = S.dec("value", 0, 10 ** 12)
    st = A.market._market_status.data
    dq, db = _decs(S)
    sA = uh.base_unit_price_to_sqrt_price_x96(st["price"], dq, db, True)
    tA = uh.sqrt_price_x96_to_tick(sA)
    S.assume(tA < kA.lower_tick - 1 or tA > kA.upper_tick)
    _mirror_hint(tA)
    if tA < kA.lower_tick:
        S.cover("below")
    else:
        S.cover("above")
    try:
        la, q_a, b_a = A.market.estimate_liquidity(v, kA)
        lb, b_b, q_b = B.market.estimate_liquidity(v, kB)
    except REJECT:
        # natively a liquidity of more than 35 digits overflows the Decimal floor division inside mul_div (DivisionImpossible):
        # outside the native sampling domain; symbolically no rejection is reachable, and if one were it is reported
        S.native_assume(False, "astronomic liquidity (> 35 digits)")
        S.check("estimate_liquidity-does-not-reject", False)
        return
    S.native_assume(la > 10 ** 14)
    S.check("liquidity-equal", S.close(la, lb, "1e-3"))
    S.check("quote-amount-equal", S.close(q_a, q_b, "1e-3", Decimal("1e-12")))
    S.check("base-amount-equal", S.close(b_a, b_b, "1e-3", Decimal("1e-12")))


# ================================================================================================ the idealisation itself, measured on the real code
SHARDS8 = {"quick": [{"shard": i, "of": 8} for i in range(8)], "thorough": [{"shard": i, "of": 8} for i in range(8)]}


@proof("C09", "tick-math/mirror-identity", strength="X", shapes=SHARDS8,
       note="f(t) * f(-t) against 2^192 for every tick 0..887272 of the real get_sqrt_ratio_at_tick (exact integer arithmetic): within 2.4e-10 relative "
            "everywhere, within 1e-12 relative for |t| <= 700000 — this bounds what the idealised contract f(-t)*f(t) == 2^192 drops")
def x_mirror_identity(ctx):
    from fractions import Fraction
    out = {k: {"instances": 0, "failures": [], "undecided": 0} for k in ("|f(t)f(-t)/2^192-1|<=2.4e-10", "|t|<=700000:|f(t)f(-t)/2^192-1|<=1e-12")}
    lim_all, lim_in = Fraction(24, 10 ** 11), Fraction(1, 10 ** 12)

    def one(t):
        d = Fraction(abs(lm.get_sqrt_ratio_at_tick(t) * lm.get_sqrt_ratio_at_tick(-t) - Q192), Q192)
        c = out["|f(t)f(-t)/2^192-1|<=2.4e-10"]
        c["instances"] += 1
        if d > lim_all and len(c["failures"]) < 5:
            c["failures"].append({"tick": t, "relative_error": float(d)})
        if t <= 700000:
            c = out["|t|<=700000:|f(t)f(-t)/2^192-1|<=1e-12"]
            c["instances"] += 1
            if d > lim_in and len(c["failures"]) < 5:
                c["failures"].append({"tick": t, "relative_error": float(d)})
    if ctx.get("replay"):
        one(abs(int(ctx["replay"]["tick"])))
        return out
    i, n = ctx["shape"]["shard"], ctx["shape"]["of"]
    a = (MAX_TICK + 1) * i // n
    b = (MAX_TICK + 1) * (i + 1) // n
    for t in range(a, b):
        one(t)
    return out


# ================================================================================================ estimate-based helpers (bounded)
@native
def _native_pair(dq, db, tick, frac, wq, wb):
    """two REAL markets (no symbols): pool A with token0 = quote at a price strictly inside tick `tick` of pool A, and its mirror"""
    from demeter.uniswap.helper import tick_to_base_unit_price
    p0 = tick_to_base_unit_price(tick, dq, db, True)
    p1 = tick_to_base_unit_price(tick + 1, dq, db, True)
    price = p0 + (p1 - p0) * frac
    row = {"closeTick": tick, "currentLiquidity": 10 ** 18, "inAmount0": 0, "inAmount1": 0, "price": price}
    A = _market(dq, db, True, 0.05, T0, dict(row), tick, wq, wb, [])
    B = _market(db, dq, False, 0.05, T0, dict(row, closeTick=-tick - 1), -tick - 1, wb, wq, [])
    return A, B, price


@proof("C09", "estimate-helpers(in-range)/0.1%:mirrored", strength="B", shapes=DECIMALS,
       config={"bounded_samples": {"quick": 400, "thorough": 6000}},
       note="bounded stand-in: estimate_ratio is float exponentiation (1.0001 ** (tick/2)) and the mirrored pool's current tick is -t-1, so the "
            "in-range branch of estimate_amount / estimate_liquidity / add_liquidity_by_value is not exactly mirror-symmetric; the statement's "
            "0.1 % is checked natively on seeded pools (|tick| <= 300000, bounds 12000..37500 ticks from the price for estimate_amount / estimate_liquidity and ten times that for add_liquidity_by_value, asymmetry 0.8..1.25, non-dust value: one tick (one spacing) of quantisation is then at most 0.01 % before the amplification by the token split); "
            "narrower ranges are the KNOWN FINDING obligation below")
def b_estimates(S):
    dq, db = _decs(S)
    tick = S.int("price_tick", -300000, 300000)
    d = S.int("ticks_to_nearer_bound", 1500, 3000) * 10
    k = S.int("asymmetry_percent", 80, 125)
    below, above = d, (d * k // 1000) * 10
    frac = S.dec("position_inside_tick", Decimal("0.01"), Decimal("0.99"))
    lo = (tick // 10) * 10 - below
    up = (tick // 10) * 10 + 10 + above
    wq = S.dec("wallet_quote", 1000, 10 ** 7)
    wb_value = S.dec("wallet_base_value_in_quote", 1000, 10 ** 7)
    A, B, price = _native_pair(dq, db, tick, frac, wq, wb_value / 1)
    A.broker._assets[A.base].balance = wb_value / price
    B.broker._assets[B.base].balance = wb_value / price
    v = S.dec("value", 100, 1000)
    qa, ba = A.market.estimate_amount(v, lo, up)
    bb, qb = B.market.estimate_amount(v, -up, -lo)
    S.native_assume(qa * 10 ** dq > 10 ** 6 and ba * 10 ** db > 10 ** 6, "non-dust: both sides are at least a million atomic units (a few hundred wei truncate by 0.3 %)")
    S.check("estimate_amount:quote", S.close(qa, qb, "1e-3", Decimal("1e-9")))
    S.check("estimate_amount:base", S.close(ba, bb, "1e-3", Decimal("1e-9")))
    S.check("estimate_amount:value-adds-up", S.close(qa + ba * price, v, "1e-9"))
    la, q2, b2 = A.market.estimate_liquidity(v, PositionInfo(lo, up))
    lb, b3, q3 = B.market.estimate_liquidity(v, PositionInfo(-up, -lo))
    S.native_assume(la > 10 ** 6, "non-dust liquidity")
    S.check("estimate_liquidity:liquidity", S.close(la, lb, "1e-3", 2))
    S.check("estimate_liquidity:amounts", S.close(q2, q3, "1e-3", Decimal("1e-9")) and S.close(b2, b3, "1e-3", Decimal("1e-9")))
    # add_liquidity_by_value estimates from the tick rounded to the SPACING (10 ticks here): the same 0.1 % needs bounds ten times farther away
    lo2 = (tick // 10) * 10 - 10 * below
    up2 = (tick // 10) * 10 + 10 + 10 * above
    use = S.dec("fraction_of_balance_to_use", Decimal("0.05"), Decimal("0.95")) * (wq + wb_value)
    ra = A.market.add_liquidity_by_value(lo2, up2, use)
    rb = B.market.add_liquidity_by_value(-up2, -lo2, use)
    S.native_assume(ra[1] * 10 ** db > 10 ** 6 and ra[2] * 10 ** dq > 10 ** 6, "non-dust amounts used")
    S.check("add_liquidity_by_value:keys-mirrored", ra[0].lower_tick == -rb[0].upper_tick and ra[0].upper_tick == -rb[0].lower_tick)
    S.check("add_liquidity_by_value:base-used", S.close(ra[1], rb[1], "1e-3", Decimal("1e-9")))
    S.check("add_liquidity_by_value:quote-used", S.close(ra[2], rb[2], "1e-3", Decimal("1e-9")))
    S.check("add_liquidity_by_value:liquidity", S.close(ra[3], rb[3], "1e-3", 2))
    S.check("add_liquidity_by_value:wallet(within-0.1%-of-the-value-used)",
            S.close(A.broker._assets[A.base].balance, B.broker._assets[B.base].balance, "0", use / price / 1000)
            and S.close(A.broker._assets[A.quote].balance, B.broker._assets[B.quote].balance, "0", use / 1000))
    va = A.market.get_market_balance().net_value
    vb = B.market.get_market_balance().net_value
    S.check("add_liquidity_by_value:position-value", S.close(va, vb, "1e-3"))


@proof("C09", "estimate-helpers(narrow-range)/0.1%:mirrored", strength="B", shapes={"quick": DECIMALS["quick"][:1], "thorough": DECIMALS["quick"]},
       config={"bounded_samples": {"quick": 60, "thorough": 600}},
       note="KNOWN FINDING: estimate_amount (and with it estimate_liquidity / add_liquidity_by_value in range) takes the FLOORED current tick; the "
            "mirrored pool floors the reciprocal price, i.e. uses the next tick, so the two estimates differ by one tick's worth: ~1 % for a +-100 tick range")
def b_estimates_narrow(S):
    dq, db = _decs(S)
    tick = S.int("price_tick", -400000, 400000)
    half = S.int("half_range_ticks", 5, 50) * 10
    frac = S.dec("position_inside_tick", Decimal("0.01"), Decimal("0.99"))
    lo = (tick // 10) * 10 - half
    up = (tick // 10) * 10 + 10 + half
    A, B, price = _native_pair(dq, db, tick, frac, Decimal(5000), Decimal(5000))
    v = S.dec("value", 100, 1000)
    qa, ba = A.market.estimate_amount(v, lo, up)
    bb, qb = B.market.estimate_amount(v, -up, -lo)
    S.check("estimate_amount:within-0.1%", S.close(qa, qb, "1e-3", Decimal("1e-9")) and S.close(ba, bb, "1e-3", Decimal("1e-9")))
