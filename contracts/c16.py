"""C16 — options settle once at expiry with intrinsic payoff net of delivery fee (demeter/deribit/market.py::update,
check_option_exercise, _deliver_option, _is_open; broker/market.py::write_func).

From the statement: on an OPEN bar every held position with expiry <= now is removed exactly once (one Expired record);
in the money it pays round(n x |U - K| / U) - round(min(0.015% n, 12.5% n mark)) if that is positive (one Deliver record),
nothing otherwise; positions with expiry > now are untouched; on a closed bar update() is a no-op and trades are refused."""
import math
from decimal import Decimal
from pyvc.api import proof, native, exact, spec
from .common import REJECT
from .worlds import deribit_world, H0, H0_1, H1
from .aave_common import dump
from .c15 import half_up_6
from demeter.deribit.helper import round_decimal
import pandas as pd
from demeter.deribit import OptionKind
from demeter.deribit._typing import DeliverAction, ExpiredAction

PAST = pd.Timestamp("2024-01-01 05:00:00")
DELIVERY_FEE_RATE = Decimal("0.00015")
MAX_FEE = Decimal("0.125")


def _sh(ts, exp0, exp1, in_book=True):
    return {"ts": ts, "exp": {"I0": exp0, "I1": exp1}, "in_book": in_book}


_T = {"open": H0, "closed": H0_1}
_E = {"past": PAST, "now": H0, "future": H1, "in-1-min": H0_1}
SHAPES = {"quick": [_sh("open", "now", "future"), _sh("open", "past", "past"), _sh("open", "future", "in-1-min"), _sh("closed", "past", "now"),
                    _sh("open", "past", "future", False)],
          "thorough": [_sh("open", "now", "future"), _sh("open", "past", "past"), _sh("open", "future", "in-1-min"), _sh("closed", "past", "now"),
                       _sh("open", "past", "future", False), _sh("open", "now", "now"), _sh("closed", "future", "future"), _sh("open", "past", "now", False)]}


def world(S):
    sh = S.shape
    exp = {k: _E[v] for k, v in sh["exp"].items()}
    instr = (("I0", "CALL", "open"), ("I1", "PUT", "open")) if sh["in_book"] else (("I1", "PUT", "open"),)
    return deribit_world(S, instr, 1, 1, ("I0", "I1"), _T[sh["ts"]], exp)


@native
def pos_state(m):
    return {k: dict(vars(v)) for k, v in m.positions.items()}


@native
def of_type(actions, cls, name):
    return [a for a in actions if isinstance(a, cls) and a.instrument_name == name]


@native
def book_row(m, name):
    d = m._market_status.data
    if name in d.index:
        return d.at[name, "mark_price"], d.at[name, "underlying_price"]
    return 0, m._price_status[m.token.name]


@proof("C16", "update/settles-exactly-the-expired-positions", strength="S", shapes=SHAPES, config={"max_seconds": 600})
def po_update(S):
    w = world(S)
    m = w.market
    now = _T[S.shape["ts"]]
    is_open = S.shape["ts"] == "open"
    pos0 = {k: (v.amount, v.strike_price, v.type, v.expiry_time) for k, v in m.positions.items()}
    st0 = dump(pos_state(m))
    cash0 = m.balance
    wallet0 = w.broker._assets[w.token].balance
    book0 = dump(m._market_status.data)
    m.update()
    if not is_open:
        S.unchanged("closed-bar:update-is-a-no-op(positions)", st0, dump(pos_state(m)))
        S.check("closed-bar:update-is-a-no-op(cash,actions)", m.balance == cash0 and len(w.actions) == 0)
        return
    paid = 0
    for name in pos0:
        n, K, kind, exp = pos0[name]
        due = exp <= now
        S.check(f"{name}:removed-iff-expiry<=now", (name not in m.positions) == due)
        S.check(f"{name}:exactly-one-Expired-record-iff-settled", len(of_type(w.actions, ExpiredAction, name)) == (1 if due else 0))
        dl = of_type(w.actions, DeliverAction, name)
        if not due:
            S.check(f"{name}:nothing-settled-before-expiry", len(dl) == 0)
            continue
        mark, U = book_row(m, name)
        # rounding to the fee step is helper.round_decimal (its own contract — round half up — is C15's round_decimal PO)
        diff = (U - K) if kind == OptionKind.call else (K - U)
        fee = round_decimal(min(DELIVERY_FEE_RATE * n, MAX_FEE * (n * round_decimal(mark, -6))), -6)
        if diff > 0:
            payoff = round_decimal(n * Decimal(diff / U), -6)
            pays = payoff > fee
        else:
            payoff = 0
            pays = False
        S.check(f"{name}:Deliver-record-iff-in-the-money-and-payoff>fee", len(dl) == (1 if pays else 0))
        if pays:
            S.cover("paid")
            S.check(f"{name}:payoff==round(n*|U-K|/U)", S.eq(dl[0].deriver_amount, payoff))
            S.check(f"{name}:fee==round(min(0.015%*n,12.5%*n*mark))", S.eq(dl[0].fee, fee))
            S.check(f"{name}:income==payoff-fee", S.eq(dl[0].income_amount, payoff - fee))
            paid = paid + (payoff - fee)
    S.check("cash+=sum(payoff-fee)-of-the-settled-in-the-money-positions", S.eq(m.balance, cash0 + paid))
    S.check("wallet-untouched", w.broker._assets[w.token].balance == wallet0)
    S.unchanged("order-book-untouched", book0, dump(m._market_status.data))
    # unsettled positions keep every field
    keep = {k: v for k, v in pos_state(m).items()}
    for name in keep:
        S.check(f"{name}:unsettled-position-unchanged", keep[name]["amount"] == pos0[name][0])


@proof("C16", "closed-bar/trades-refused-nothing-changes", strength="S", shapes={"quick": [_sh("closed", "future", "future")], "thorough": [_sh("closed", "future", "future"), _sh("closed", "past", "now")]})
def po_closed(S):
    w = world(S)
    m = w.market
    st0 = dump((pos_state(m), m.balance, dump(m._market_status.data), len(w.actions)))
    is_buy = S.bool("is_buy")
    amount = S.dec("amount", None, None)
    ok = True
    try:
        if is_buy:
            m.buy("I0", amount)
        else:
            m.sell("I0", amount)
    except REJECT:
        ok = False
    S.check("trade-refused-while-closed", not ok)
    S.unchanged("nothing-changed", st0, dump((pos_state(m), m.balance, dump(m._market_status.data), len(w.actions))))


@proof("C16", "is_open-flag/open-exactly-on-bars-present-in-the-hourly-data", strength="S", shapes={"quick": [_sh("open", "future", "future"), _sh("closed", "future", "future")]})
def po_flag(S):
    """Market.set_market_status sets is_open iff the bar's timestamp is in the market's (hourly) data index; _is_open() iff on the hour"""
    from demeter.deribit import DeribitMarketStatus
    w = world(S)
    m = w.market
    ts = _T[S.shape["ts"]]
    m.set_market_status(DeribitMarketStatus(ts, None), m._price_status)
    S.check("is_open==(bar-in-hourly-data)", m.is_open == (S.shape["ts"] == "open"))
    S.check("_is_open()==(bar-on-the-hour)", m._is_open() == (S.shape["ts"] == "open"))
    S.check("status-is-a-copy-of-the-hour's-rows", len(m._market_status.data.index) == len(w.data.index))


@native
def same_rows_next_bar(w):
    return w.data.copy()


@proof("C16", "update/two-bars:a-position-bought-after-an-earlier-update-settles-at-its-own-expiry", strength="S",
       shapes={"quick": [{"first": "CALL"}], "thorough": [{"first": "CALL"}, {"first": "PUT"}]}, config={"max_seconds": 600}, covers=("bought",))
def po_two_bars(S):
    """Settlement is stated per bar ('at the first open bar at or after expiry'): it may not depend on what an earlier update() saw.
       Bar 06:00: a position expiring at 08:00 is held, update() finds nothing due; then an option expiring at 07:00 is bought through
       the real buy(); bar 07:00: update() must settle exactly that one."""
    from demeter.deribit import DeribitMarketStatus
    far = H1 + pd.Timedelta(hours=1)
    k0 = S.shape["first"]
    w = deribit_world(S, (("I0", k0, "open"), ("I1", "PUT" if k0 == "CALL" else "CALL", "open")), 1, 1, ("I0",), H0, {"I0": far, "I1": H1})
    m = w.market
    m.update()
    S.check("bar-0:nothing-is-due,nothing-settled", "I0" in m.positions and len(w.actions) == 0)
    try:
        m.buy("I1", S.dec("amount", 0, 1000))
    except REJECT:
        pass
    held1 = "I1" in m.positions
    n0 = len(w.actions)
    m.set_market_status(DeribitMarketStatus(H1, same_rows_next_bar(w)), m._price_status)
    m.update()
    S.check("bar-1:the-later-expiry-is-untouched", "I0" in m.positions and len(of_type(w.actions, ExpiredAction, "I0")) == 0)
    if held1:
        S.cover("bought")
        S.check("bar-1:the-position-bought-in-bar-0-is-settled-at-its-expiry", "I1" not in m.positions)
        S.check("bar-1:exactly-one-Expired-record-for-it", len(of_type(w.actions, ExpiredAction, "I1")) == 1)
