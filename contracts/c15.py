"""C15 — option orders fill best-first at displayed sizes; cash, fee, position exact (demeter/deribit/market.py, helper.py).

Specification (from the statement): for a book with levels (p_i, s_i) sorted best-first and a request of n contracts
(n = the requested amount rounded half-up to the contract step, at least one step):
    fill_0 = min(s_0, n), fill_i = min(s_i, n - sum_{j<i} fill_j)        (prefix of the book, each <= displayed size)
    premium = sum p_i * fill_i,  fee = round_half_up(min(0.0003 n, 0.125 premium), 1e-6)
    buy:  cash' = cash - premium - fee;  sell: cash' = cash + premium - fee, only if n <= held
    book' = book - fills (the side that was hit; everything else untouched);  position moves by exactly n, averages size-weighted.
Shape-bounded: number of instruments and book levels concrete, every price/size/amount symbolic."""
import math
from decimal import Decimal
from pyvc.api import proof, native, exact, spec
from .common import REJECT
from .worlds import deribit_world, H0, H0_1, H1
from .aave_common import dump
from demeter.deribit import DeribitOptionMarket
from demeter.deribit.helper import round_decimal

FEE_RATE = Decimal("0.0003")
MAX_FEE = Decimal("0.125")


def _sh(n_asks, n_bids, held=True, two=False):
    return {"n_asks": n_asks, "n_bids": n_bids, "held": held, "two": two}


SHAPES = {"quick": [_sh(1, 1), _sh(2, 2), _sh(3, 2, False), _sh(2, 2, True, True)],
          "thorough": [_sh(1, 1), _sh(2, 2), _sh(3, 2, False), _sh(2, 3), _sh(2, 2, True, True), _sh(4, 4), _sh(3, 3, False, True)]}


def world(S):
    sh = S.shape
    instr = (("I0", "CALL", "open"),) + ((("I1", "PUT", "open"),) if sh["two"] else ())
    held = (("I0",) if sh["held"] else ()) + (("I1",) if sh["two"] else ())
    return deribit_world(S, instr, sh["n_asks"], sh["n_bids"], held)


@spec
def half_up(x):
    """round half up to an integer (x >= 0)"""
    return math.floor(x + Decimal("0.5"))


@spec
def half_up_6(x):
    return exact(math.floor(x * 10 ** 6 + Decimal("0.5"))) / 10 ** 6


@spec
def expected_fills(levels, n, eligible=None):
    """best-first prefix fill of n contracts over [(price, size)]: each level gives min(size, what is still missing)"""
    out = []
    rem = n
    for i in range(len(levels)):
        if eligible is not None and not eligible[i]:
            out.append(0)
            continue
        f = min(Decimal(str(levels[i][1])), rem)
        out.append(f)
        rem = rem - f
    return out


@native
def book(m, name, side):
    return m._market_status.data.at[name, side]


@native
def snapshot_levels(levels):
    return [(lv[0], lv[1]) for lv in levels]


@native
def everything_else(w, name, side):
    """the visible book except (name, side), the input frame, the wallet"""
    d = w.market._market_status.data
    return {"book": {(n, c): d.at[n, c] for n in d.index for c in ("asks", "bids") if (n, c) != (name, side)},
            "wallet": {t.name: a.balance for t, a in w.broker._assets.data.items()},
            "other_positions": {k: vars(v) for k, v in w.market.positions.items() if k != name}}


@native
def input_frame(w):
    return w.market._data


def _trade(S, w, side, amount, **kw):
    m = w.market
    if side == "buy":
        return m.buy("I0", amount, **kw)
    return m.sell("I0", amount, **kw)


def _check_trade(S, w, side, levels0, cash0, pos0, else0, frame0, n_req, orders, fee, eligible=None):
    """postcondition of an accepted market-mode trade"""
    m = w.market
    n = sum([o.amount for o in orders])
    S.check("filled==requested-rounded-half-up-to-the-contract-step(min-1)", n == max(half_up(n_req), 1))
    fills = expected_fills(levels0, n, eligible)
    after = book(m, "I0", "asks" if side == "buy" else "bids")
    S.check("book-keeps-its-levels", len(after) == len(levels0))
    for i in range(len(levels0)):
        S.check(f"level{i}:price-unchanged", after[i][0] == levels0[i][0])
        S.check(f"level{i}:visible-size-reduced-by-its-best-first-fill", S.eq(levels0[i][1] - after[i][1], fills[i]))
        S.check(f"level{i}:fill<=displayed-size", fills[i] >= 0 and S.le(fills[i], levels0[i][1]))
    premium = sum([Decimal(str(levels0[i][0])) * fills[i] for i in range(len(levels0))])
    S.check("orders-returned==fills", S.eq(sum([o.amount * o.price for o in orders]), premium))
    a = w.actions[-1]
    S.check("action:amount,premium,fee", S.eq(a.amount, n) and S.eq(a.total_premium, premium) and S.eq(a.fee, fee) and a.instrument_name == "I0")
    # the fee formula is stated over the recorded amount and premium (just shown equal to n and the premium of the fills)
    S.check("fee==round_half_up(min(0.03%*n,12.5%*premium),1e-6)", S.eq(fee, half_up_6(min(FEE_RATE * a.amount, MAX_FEE * a.total_premium))))
    if side == "buy":
        S.check("cash-=premium+fee", S.eq(m.balance, cash0 - premium - fee))
    else:
        S.check("cash+=premium-fee", S.eq(m.balance, cash0 + premium - fee))
    S.unchanged("rest-of-book,wallet,other-positions-untouched", else0, dump(everything_else(w, "I0", "asks" if side == "buy" else "bids")))
    S.unchanged("input-frame-untouched", frame0, dump(input_frame(w)))
    return n, premium


def _fillable(S, amount, usable, levels0, cash, held):
    """sufficient conditions under which the statement's order must be filled: open market and instrument, at least one contract,
    the usable levels hold the (rounded) amount, and — buy — the cash covers it at the worst displayed price plus the 12.5 % fee cap,
    — sell — the contracts are held"""
    sh = S.shape
    if sh.get("state", "open") != "open" or sh.get("ts", "open") != "open":
        return False
    n = max(half_up(amount), 1)
    ok = amount >= 1 and n <= sum([Decimal(str(lv[1])) for lv in usable])
    if cash is not None:
        # displayed prices are at most 10 in every world of this file (deribit_book): 10 x 1.125 fee cap, fee rounded up to the 1e-6 step.
        # A linear sufficient condition keeps the obligation inside linear arithmetic (the exact premium is nonlinear in n x price).
        ok = ok and n * Decimal("11.3") + Decimal("0.000002") <= cash
    if held is not None:
        ok = ok and n <= held
    return ok


def _pos(m):
    p = m.positions.get("I0")
    if p is None:
        return (0, 0, 0, 0, 0)
    return (p.amount, p.avg_buy_price, p.buy_amount, p.avg_sell_price, p.sell_amount)


@proof("C15", "buy(market-order)", strength="S", shapes=SHAPES, covers=("accepted", "rejected"), config={"max_seconds": 600})
def po_buy(S):
    w = world(S)
    m = w.market
    amount = S.dec("amount", None, None)
    levels0 = snapshot_levels(book(m, "I0", "asks"))
    cash0, pos0 = m.balance, _pos(m)
    else0, frame0 = dump(everything_else(w, "I0", "asks")), dump(input_frame(w))
    n0 = len(w.actions)
    try:
        orders, fee = m.buy("I0", amount)
    except REJECT:
        S.cover("rejected")
        S.check("an-affordable-order-the-asks-can-fill-is-not-rejected", not _fillable(S, amount, levels0, levels0, cash0, None))
        return
    S.cover("accepted")
    n, premium = _check_trade(S, w, "buy", levels0, cash0, pos0, else0, frame0, amount, orders, fee)
    p1 = _pos(m)
    S.check("position+=n", S.eq(p1[0], pos0[0] + n) and S.eq(p1[2], pos0[2] + n))
    S.check("avg-buy-price-size-weighted", S.eq(p1[1] * (pos0[2] + n), pos0[1] * pos0[2] + premium))
    S.check("sell-side-of-position-untouched", p1[3] == pos0[3] and p1[4] == pos0[4])
    S.check("cash-never-negative", m.balance >= 0)
    S.check("one-action", len(w.actions) == n0 + 1)


@proof("C15", "sell(market-order)", strength="S", shapes=SHAPES, covers=lambda sh: ("accepted", "rejected") if sh["held"] else ("rejected",),
       config={"max_seconds": 600})
def po_sell(S):
    w = world(S)
    m = w.market
    amount = S.dec("amount", None, None)
    levels0 = snapshot_levels(book(m, "I0", "bids"))
    cash0, pos0 = m.balance, _pos(m)
    else0, frame0 = dump(everything_else(w, "I0", "bids")), dump(input_frame(w))
    n0 = len(w.actions)
    try:
        orders, fee = m.sell("I0", amount)
    except REJECT:
        S.cover("rejected")
        S.check("rejected-sale-pays-nothing", m.balance == cash0)
        S.check("a-sale-of-held-contracts-the-bids-can-absorb-is-not-rejected", not _fillable(S, amount, levels0, levels0, None, pos0[0]))
        return
    S.cover("accepted")
    n, premium = _check_trade(S, w, "sell", levels0, cash0, pos0, else0, frame0, amount, orders, fee)
    p1 = _pos(m)
    S.check("only-held-contracts-can-be-sold", S.le(n, pos0[0]))
    S.check("position-=n", S.eq(p1[0], pos0[0] - n))
    S.check("position-removed-iff-nothing-left", ("I0" in m.positions) == (pos0[0] - n > 0))
    if "I0" in m.positions:
        S.check("sold+=n;avg-sell-price-size-weighted", S.eq(p1[4], pos0[4] + n) and S.eq(p1[3] * (pos0[4] + n), pos0[3] * pos0[4] + premium))
        S.check("buy-side-of-position-untouched", p1[1] == pos0[1] and p1[2] == pos0[2])
    S.check("one-action", len(w.actions) == n0 + 1)


@proof("C15", "limit-priced-order/fills-only-that-level", strength="S", shapes=SHAPES, covers=("accepted",), config={"max_seconds": 600})
def po_limit(S):
    w = world(S)
    m = w.market
    is_buy = S.bool("is_buy")
    amount = S.dec("amount", None, None)
    limit = S.dec("price_in_token", 0, 10, lo_strict=True)
    side = "asks" if is_buy else "bids"
    levels0 = snapshot_levels(book(m, "I0", side))
    cash0, pos0 = m.balance, _pos(m)
    else0 = dump(everything_else(w, "I0", side))
    # optionally together with a price cap relative to mark: the limit level must then ALSO lie inside the cap
    k = S.dec("max_mark_price_multiple", 1, 100) if S.bool("with_price_cap") else None
    mark = Decimal(str(m._market_status.data.at["I0", "mark_price"]))
    try:
        if is_buy:
            orders, fee = m.buy("I0", amount, limit, None, k)
        else:
            orders, fee = m.sell("I0", amount, limit, None, k)
    except REJECT:
        return
    S.cover("accepted")
    S.check("exactly-one-fill", len(orders) == 1)
    n, p = orders[0].amount, orders[0].price
    if k is not None:
        S.check("with-a-cap:the-filled-level-is-inside-the-cap", (p < k * mark) if is_buy else (p > mark / k))
    S.check("position-changes-by-exactly-the-fill", S.eq(_pos(m)[0], pos0[0] + n) if is_buy else S.eq(_pos(m)[0], pos0[0] - n))
    S.check("filled==requested-rounded(min-1)", n == max(half_up(amount), 1))
    S.check("fill-price-within-0.1%-of-the-limit", abs(p - limit) < limit * Decimal("0.001"))
    after = book(m, "I0", side)
    hit = [i for i in range(len(levels0)) if Decimal(str(levels0[i][0])) == p]
    S.check("fill-price-is-a-displayed-level", len(hit) >= 1)
    for i in range(len(levels0)):
        if i in hit[:1]:
            S.check(f"level{i}:reduced-by-n<=displayed", S.eq(levels0[i][1] - after[i][1], n) and S.le(n, levels0[i][1]))
        else:
            S.check(f"level{i}:untouched", after[i][1] == levels0[i][1] and after[i][0] == levels0[i][0])
    premium = n * p
    a = w.actions[-1]
    S.check("action:amount,premium", S.eq(a.amount, n) and S.eq(a.total_premium, premium))
    S.check("fee", S.eq(fee, half_up_6(min(FEE_RATE * a.amount, MAX_FEE * a.total_premium))))
    S.check("cash", S.eq(m.balance, cash0 - premium - fee) if is_buy else S.eq(m.balance, cash0 + premium - fee))
    S.check("only-held-contracts-can-be-sold", is_buy or S.le(n, pos0[0]))
    S.unchanged("rest-untouched", else0, dump(everything_else(w, "I0", side)))


@proof("C15", "price-cap-relative-to-mark/excludes-worse-levels", strength="S", shapes=SHAPES, covers=("accepted",), config={"max_seconds": 600})
def po_cap(S):
    w = world(S)
    m = w.market
    is_buy = S.bool("is_buy")
    amount = S.dec("amount", None, None)
    k = S.dec("max_mark_price_multiple", 1, 100)
    side = "asks" if is_buy else "bids"
    levels0 = snapshot_levels(book(m, "I0", side))
    mark = Decimal(str(m._market_status.data.at["I0", "mark_price"]))
    cash0, pos0 = m.balance, _pos(m)
    else0, frame0 = dump(everything_else(w, "I0", side)), dump(input_frame(w))
    try:
        if is_buy:
            orders, fee = m.buy("I0", amount, None, None, k)
        else:
            orders, fee = m.sell("I0", amount, None, None, k)
    except REJECT:
        inside = [lv for lv in levels0 if ((lv[0] < k * mark) if is_buy else (lv[0] > mark / k))]
        S.check("an-order-the-levels-inside-the-cap-can-fill-is-not-rejected", not _fillable(S, amount, inside, levels0, cash0 if is_buy else None, None if is_buy else pos0[0]))
        return
    S.cover("accepted")
    eligible = [(lv[0] < k * mark) if is_buy else (lv[0] > mark / k) for lv in levels0]
    _check_trade(S, w, "buy" if is_buy else "sell", levels0, cash0, pos0, else0, frame0, amount, orders, fee, eligible)
    after = book(m, "I0", side)
    for i in range(len(levels0)):
        S.check(f"level{i}:worse-than-cap=>untouched", eligible[i] or after[i][1] == levels0[i][1])
    S.check("only-held-contracts-can-be-sold", is_buy or S.le(sum([o.amount for o in orders]), pos0[0]))


@proof("C15", "equity==cash+positions-at-mark", strength="S", shapes=SHAPES)
def po_equity(S):
    w = world(S)
    m = w.market
    b = m.get_market_balance()
    val = 0
    for name, p in m.positions.items():
        val = val + exact(p.amount) * half_up_6(Decimal(str(m._market_status.data.at[name, "mark_price"])))
    S.check("net_value==cash+sum(amount*mark)", S.eq(b.net_value, exact(m.balance) + val))
    S.check("premium==sum(amount*mark)", S.eq(b.premium, val) and S.eq(b.balance, m.balance))


@proof("C15", "two-orders-in-a-bar/second-sees-the-shrunk-book", strength="S", shapes={"quick": [_sh(2, 2)], "thorough": [_sh(2, 2), _sh(3, 3)]},
       covers=("both-accepted",), config={"max_seconds": 600})
def po_two(S):
    """buy a then buy b within a bar: together they take from each level what one order of a+b would take (never more than displayed)"""
    w = world(S)
    m = w.market
    a = S.int("a", 1, 10 ** 6)
    b = S.int("b", 1, 10 ** 6)
    levels0 = snapshot_levels(book(m, "I0", "asks"))
    try:
        m.buy("I0", a)
        m.buy("I0", b)
    except REJECT:
        return
    S.cover("both-accepted")
    fills = expected_fills(levels0, a + b)
    after = book(m, "I0", "asks")
    for i in range(len(levels0)):
        S.check(f"level{i}:total-taken==best-first-fill-of-a+b<=displayed", S.eq(levels0[i][1] - after[i][1], fills[i]) and after[i][1] >= 0)


@proof("C15", "round_decimal==round-half-up-to-the-step", strength="U")
def po_round(S):
    """helper.round_decimal(x, e) for the fee step (1e-6), the BTC fee step (1e-8) and the contract steps (1, 0.1):
    the nearest multiple of the step, ties away from zero."""
    x = S.dec("x", None, None)
    for e in (-6, -8, 0, -1):
        step = Decimal(1).scaleb(e)
        r = round_decimal(x, e)
        k = r / step
        S.check(f"1e{e}:multiple-of-step", k == math.floor(k))
        S.check(f"1e{e}:nearest", abs(r - x) * 2 <= step)
        S.check(f"1e{e}:ties-away-from-zero", abs(r - x) * 2 != step or abs(r) > abs(x))
        S.check(f"1e{e}:non-negative==floor(x/step+1/2)*step", x < 0 or r == math.floor(x / step + Decimal("0.5")) * step)


@proof("C15", "get_trade_fee,get_deliver_fee/exact-on-the-Decimal-grid(bounded)", strength="B", config={"bounded_samples": {"quick": 400, "thorough": 8000}})
def po_fee_grid(S):
    """bounded stand-in for what the proof over the reals cannot see: the fee is ROUNDED, so it is a discrete outcome, and a re-arrangement
    of the formula that is equal over the reals can land on the other side of a half fee step under Decimal arithmetic.  Whole contracts,
    premiums on the 0.0001 price tick (sums of level price x size): fee == half-up(min(rate x n, 12.5 % x premium), 1e-6) computed exactly."""
    from fractions import Fraction
    from demeter import MarketInfo, MarketTypeEnum
    from demeter.deribit import DeribitOptionMarket
    m = DeribitOptionMarket(MarketInfo("opt", MarketTypeEnum.deribit_option), DeribitOptionMarket.ETH)
    n = S.int("contracts", 1, 60)
    ticks = S.int("premium_in_price_ticks", 1, 4000)          # premium = ticks x 0.0001 (cheap options: the 12.5 % cap binds)
    premium = Decimal(ticks) / Decimal(10000)

    def half_up_micro(x):
        q = x * 10 ** 6
        fl = q.numerator // q.denominator
        return Fraction(fl + (1 if q - fl >= Fraction(1, 2) else 0), 10 ** 6)
    want_t = half_up_micro(min(Fraction(3, 10000) * n, Fraction(1, 8) * Fraction(ticks, 10000)))
    want_d = half_up_micro(min(Fraction(15, 100000) * n, Fraction(1, 8) * Fraction(ticks, 10000)))
    S.check("trade-fee==half-up(min(0.03%*n,12.5%*premium),1e-6)", Fraction(m.get_trade_fee(Decimal(n), premium)) == want_t)
    S.check("delivery-fee==half-up(min(0.015%*n,12.5%*value),1e-6)", Fraction(m.get_deliver_fee(Decimal(n), premium)) == want_d)
