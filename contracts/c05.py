"""C05 — each bar runs once, in order, with a fixed phase order; logs align with bars (demeter/core/actuator.py).

Actuator.run — the real loop, reset, _record_action_list, notify, __set_market_snapshot, __get_snapshot, init_strategy,
_generate_account_status_df — is interpreted from its source over a bar grid of the shape's length, with GHOST markets and a
GHOST strategy standing for arbitrary user code: every hook appends its event to a ghost trace; in on_bar / after_bar /
before_bar / a trigger action the strategy performs a number of market operations (each records one action through the
market's real _record_action path); whether an operation sets has_update, whether the trigger fires and whether it is retired
are SYMBOLIC booleans, so both branches of every such decision are explored at every bar.  Obligations: the trace is exactly
  status(t) before_bar(t) trigger.when(t) [trigger.do(t)] on_bar(t) [status-refresh(t) iff has_update] update(t) after_bar(t) notify*(t)
for t = index[0], index[1], ... in increasing order; every action is stamped with the bar in which it was recorded and is
notified exactly once, at the end of that bar; the account history has one row per bar with that bar's timestamp and prices.
Shape-bounded in the number of bars and markets; the hourly co-market is a ghost market whose data index is hourly."""
from decimal import Decimal
import pandas as pd
from pyvc.api import proof, native, exact, spec
from demeter import MarketInfo, TokenInfo, Strategy, MarketStatus
from demeter.broker import Market, MarketBalance, BaseAction, ActionTypeEnum
from demeter.core.actuator import Actuator
from demeter.strategy.trigger import Trigger

USD_T = TokenInfo("USD", 6)


class GhostAction(BaseAction):
    def set_type(self):
        self.action_type = ActionTypeEnum.uni_lp_buy


class GhostMarket(Market):
    """a market reduced to what the actuator drives: status refresh, update, balance; `operate` records one action"""

    def __init__(self, info, data, trace):
        super().__init__(info, data)
        self.trace = trace
        self.flags = []          # (phase, bar, did this operation set has_update) per operation on this market
        self.quote_token = USD_T

    def set_market_status(self, data, price):
        super().set_market_status(data, price)
        self.trace.append(("status", self.market_info.name, str(data.timestamp)))
        self._market_status = MarketStatus(data.timestamp, pd.Series({"x": 0}))

    def update(self):
        self.trace.append(("update", self.market_info.name, str(self._market_status.timestamp)))

    def get_market_balance(self):
        return MarketBalance(Decimal(0))

    def operate(self, tag, sets_has_update):
        a = GhostAction(market=self.market_info)
        a.tag = tag
        self.flags.append((tag.split("@")[0], str(self._market_status.timestamp), sets_has_update))
        self._record_action(a)
        if sets_has_update:
            self.has_update = True
        return a

    def check_market(self):
        pass

    def formatted_str(self):
        return ""

    def _resample(self, freq):
        pass

    @property
    def description(self):
        return None


class GhostTrigger(Trigger):
    def __init__(self, S, trace, market, made, tid="", retire_after=2):
        self.S, self.trace, self.market, self.made = S, trace, market, made
        self.kwargs = {}
        self.n = 0
        self.tid, self.retire_after = tid, retire_after
        self.evaluated_at = []

    def when(self, snapshot):
        self.n += 1
        self.trace.append(("trigger.when", str(snapshot.timestamp)))
        self.evaluated_at.append(snapshot.row_id)
        return self.S.bool(f"trigger{self.tid}_fires_{self.n}")

    def do(self, snapshot):
        self.trace.append(("trigger.do", str(snapshot.timestamp)))
        self.made.append((self.market.operate(f"trigger@{snapshot.row_id}", self.n % 2 == 0), str(snapshot.timestamp)))

    def is_out_date(self, now):
        return self.n >= self.retire_after          # retired after that many evaluations: the loop must stop calling it (and only it)


class GhostStrategy(Strategy):
    def __init__(self, S, trace, ops):
        super().__init__()
        self.S, self.trace, self.ops = S, trace, ops
        self.notified = []
        self.made = []

    def _do(self, phase, snapshot):
        self.trace.append((phase, str(snapshot.timestamp)))
        for j in range(self.ops.get(phase, 0)):
            for m in self.broker.markets.values():
                if m.is_open:
                    flag = self.S.bool(f"{phase}_{snapshot.row_id}_{j}_{m.market_info.name}_sets_has_update") if phase == "on_bar" else (snapshot.row_id + j) % 2 == 0
                    self.made.append((m.operate(f"{phase}@{snapshot.row_id}#{j}", flag), str(snapshot.timestamp)))

    def before_bar(self, snapshot):
        self._do("before_bar", snapshot)

    def on_bar(self, snapshot):
        self._do("on_bar", snapshot)

    def after_bar(self, snapshot):
        self._do("after_bar", snapshot)

    def notify(self, action):
        self.trace.append(("notify", str(action.timestamp)))
        self.notified.append(action)
        # a strategy may trade from inside its notification hook (hedge when told that an order filled): that operation is an
        # accepted operation of this bar like any other — recorded, stamped with this bar, delivered once at the end of this bar
        if self.ops.get("notify", 0) and not action.tag.startswith("notify"):
            m = self.broker.markets.default
            self.made.append((m.operate(f"notify@{action.tag}", False), str(pd.Timestamp(action.timestamp))))


@native
def build(S, n_bars, hourly, ops, with_trigger):
    trace = []
    idx = pd.date_range("2024-01-01 05:58:00", periods=n_bars, freq="min")
    a = Actuator()
    m1 = GhostMarket(MarketInfo("m1"), pd.DataFrame({"x": [0] * n_bars}, index=idx), trace)
    a.broker.add_market(m1)
    if hourly == "book":
        # an hourly market whose frame is indexed by (time, instrument) — one row per listed instrument per hour, as the option
        # market's is — with MORE ROWS than the minutely market has bars: the bar grid is still the minutely one
        k = n_bars + 2
        mi = pd.MultiIndex.from_tuples([(pd.Timestamp(h), f"I{j}") for h in ("2024-01-01 05:00:00", "2024-01-01 06:00:00") for j in range(k)])
        m2 = GhostMarket(MarketInfo("hourly"), pd.DataFrame({"x": [0] * (2 * k)}, index=mi), trace)
        a.broker.add_market(m2)
    elif hourly:
        m2 = GhostMarket(MarketInfo("hourly"), pd.DataFrame({"x": [0, 0]}, index=pd.DatetimeIndex(["2024-01-01 05:00:00", "2024-01-01 06:00:00"])), trace)
        a.broker.add_market(m2)
    a.broker.set_balance(USD_T, Decimal(100))
    st = GhostStrategy(S, trace, ops)
    if with_trigger == 2:
        # two triggers, the first retiring on its first evaluation — the very bar on which the second one is first evaluated
        st.triggers.append(GhostTrigger(S, trace, m1, st.made, "A", 1))
        st.triggers.append(GhostTrigger(S, trace, m1, st.made, "B", 3))
    elif with_trigger:
        st.triggers.append(GhostTrigger(S, trace, m1, st.made))
    a.strategy = st
    # the price frame may cover more than the bars (it "should be larger than or equal to data"): two earlier minutes and one later one,
    # every row with its own price, so a row taken by POSITION instead of by timestamp shows
    pidx = pd.date_range(idx[0] - pd.Timedelta(minutes=2), periods=n_bars + 3, freq="min")
    prices = pd.DataFrame({"USD": [Decimal(1)] * (n_bars + 3), "TKA": [Decimal(i) for i in range(n_bars + 3)]}, index=pidx)
    a.set_price(prices, USD_T)
    return a, st, trace, idx


SHAPES = {"quick": [{"bars": 1, "hourly": False, "ops": {"on_bar": 1}, "trigger": False}, {"bars": 3, "hourly": False, "ops": {"before_bar": 1, "on_bar": 1}, "trigger": True},
                    {"bars": 3, "hourly": True, "ops": {"on_bar": 1, "after_bar": 1}, "trigger": False},
                    {"bars": 2, "hourly": False, "ops": {"on_bar": 2, "notify": 1}, "trigger": False}, {"bars": 3, "hourly": "book", "ops": {"on_bar": 1}, "trigger": False},
                    {"bars": 3, "hourly": False, "ops": {}, "trigger": 2}],
          "thorough": [{"bars": 1, "hourly": False, "ops": {"on_bar": 1}, "trigger": False}, {"bars": 3, "hourly": False, "ops": {"on_bar": 1}, "trigger": True},
                       {"bars": 3, "hourly": True, "ops": {"on_bar": 1, "after_bar": 1}, "trigger": False}, {"bars": 4, "hourly": True, "ops": {"before_bar": 1, "on_bar": 2}, "trigger": True},
                       {"bars": 5, "hourly": False, "ops": {}, "trigger": False},
                       {"bars": 2, "hourly": False, "ops": {"on_bar": 2, "notify": 1}, "trigger": False}, {"bars": 3, "hourly": True, "ops": {"after_bar": 1, "notify": 1}, "trigger": True},
                       {"bars": 3, "hourly": "book", "ops": {"on_bar": 1}, "trigger": False}, {"bars": 5, "hourly": "book", "ops": {"before_bar": 1}, "trigger": False},
                       {"bars": 3, "hourly": False, "ops": {}, "trigger": 2}, {"bars": 4, "hourly": True, "ops": {"on_bar": 1}, "trigger": 2}]}


@native
def all_triggers(ts):
    return list(ts)


@native
def expected_prefix_ok(trace, idx, names):
    """the ghost trace, bar by bar, obeys the phase order; returns (ok, message)"""
    pos = 0
    # initial status for the strategy's initialize(): one refresh of every market at index[0]
    for nm in names:
        if pos >= len(trace) or trace[pos] != ("status", nm, str(idx[0])):
            return False, f"initial status of {nm} missing at {pos}: {trace[pos] if pos < len(trace) else None}"
        pos += 1
    for t in idx:
        ts = str(t)
        ts_py = str(t.to_pydatetime())
        for nm in names:
            if trace[pos] != ("status", nm, ts):
                return False, f"bar {ts}: expected status({nm}), got {trace[pos]}"
            pos += 1
        order = ["before_bar", "trigger.when", "trigger.do", "on_bar", "status", "update", "after_bar", "notify"]
        rank = 0
        seen_updates = []
        while pos < len(trace) and not (trace[pos][0] == "status" and trace[pos][-1] != ts):
            ev = trace[pos]
            if ev[-1] not in (ts, ts_py):
                return False, f"bar {ts}: event of another bar {ev}"
            r = order.index(ev[0])
            if ev[0] == "trigger.do":
                r = order.index("trigger.when")      # several triggers: when/do pairs follow one another inside the trigger phase
            if r < rank:
                return False, f"bar {ts}: phase order violated at {ev} after {order[rank]}"
            rank = r
            if ev[0] == "update":
                seen_updates.append(ev[1])
            pos += 1
        if seen_updates != names:
            return False, f"bar {ts}: update() calls {seen_updates} != one per market {names}"
    return pos == len(trace), f"trailing events from {pos}"


@proof("C05", "run/phase-order,each-bar-once,actions-stamped-and-notified-once,one-history-row-per-bar", strength="S", shapes=SHAPES,
       config={"max_seconds": 900, "max_paths": 6000, "native_samples": {"quick": 4, "thorough": 20}})
def po_run(S):
    sh = S.shape
    a, st, trace, idx = build(S, sh["bars"], sh["hourly"], sh["ops"], sh["trigger"])
    st0_triggers = list(st.triggers)
    a.run(False)
    names = ["m1"] + (["hourly"] if sh["hourly"] else [])
    ok, why = expected_prefix_ok(trace, idx, names)
    S.note(why)
    S.check("trace:bars-in-order,each-once;phases-in-order;one-update-per-market;refresh-only-between-on_bar-and-update", ok)
    S.check("history:one-row-per-bar", len(a.account_status) == len(idx))
    for i in range(len(idx)):
        S.check(f"history:row{i}-carries-the-bar's-timestamp", a.account_status[i].timestamp == idx[i].to_pydatetime())
    S.check("history-frame:one-row-per-bar-with-the-bar's-timestamp-and-prices", list(a.account_status_df.index) == list(idx)
            and [a.account_status_df[("price", "TKA")].iloc[i] for i in range(len(idx))] == [Decimal(i + 2) for i in range(len(idx))])        # bar i is row i + 2 of the price frame
    S.check("actions:every-recorded-action-is-in-the-log-once", len(a.actions) == len(st.made) and all(x is y[0] for x, y in zip(a.actions, st.made)))
    S.check("actions:stamped-with-the-bar-in-which-they-ran", all(str(pd.Timestamp(act.timestamp)) == ts for act, ts in st.made))
    S.check("actions:each-notified-exactly-once-in-order", len(st.notified) == len(st.made) and all(x is y[0] for x, y in zip(st.notified, st.made)))
    S.check("per-bar-buffer-empty-after-the-run", len(a._currents.actions) == 0)
    for tr in all_triggers(st0_triggers):
        k = min(tr.retire_after, len(idx))
        S.check(f"trigger{tr.tid}:evaluated-on-every-bar-until-retired,never-after", tr.evaluated_at == list(range(k)))
    # the second refresh of a bar happens for exactly the markets on which an operation of that bar (before_bar, trigger, on_bar)
    # set has_update; operations in after_bar come after the refresh point
    markets = {m.market_info.name: m for m in a.broker.markets.values()}
    for t in idx:
        for nm in names:
            n_status = len([e for e in trace if e[0] == "status" and e[1] == nm and e[2] == str(t)])
            extra = n_status - (2 if t == idx[0] else 1)
            wanted = any([f for ph, ts, f in markets[nm].flags if ts == str(t) and ph != "after_bar"])
            S.check(f"refresh:{nm}@{t.minute}:second-status-iff-has_update-was-set-in-this-bar", extra >= 0 and extra <= 1 and (extra == 1) == wanted)
