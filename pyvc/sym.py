"""Symbolic values and Python-number semantics over z3 terms.

SV wraps a z3 term with a Python type tag.  Every Python operator on an SV raises NativeLeak, so
native (un-interpreted) code can never silently compute with a symbol: a leak aborts the path as
UNSUPPORTED instead of producing a wrong verdict.
"""
from __future__ import annotations
import z3
from decimal import Decimal
from fractions import Fraction

INT, DEC, FLT, BOOL = "int", "Decimal", "float", "bool"


class NativeLeak(BaseException):
    """A symbolic value reached native code that tried to compute with it."""


class Unsupported(BaseException):
    """Construct or library call outside the interpreter's subset -> obligation undecided."""


class MergeAbort(Unsupported):
    """Evaluation under a merge guard (both sides of an if / and / or evaluated without forking) met something that may have
    side effects or needs a fork: the merge is abandoned and the construct is forked instead."""


def _leak(name):
    def f(self, *a, **k):
        raise NativeLeak(f"symbolic value used natively via {name}: {self!r}")
    return f


class SV:
    __slots__ = ("t", "ty")

    def __init__(self, t, ty):
        self.t = t
        self.ty = ty

    def __repr__(self):
        s = str(self.t)
        return f"SV<{self.ty}:{s[:60]}>"

    # identity of a symbolic term = its syntax (needed when an SV sits inside a dict key tuple)
    def __hash__(self):
        return self.t.hash()

    def __eq__(self, other):
        if isinstance(other, SV):
            return self.t.eq(other.t)
        return False

    def __ne__(self, other):
        return not self.__eq__(other)

    def __deepcopy__(self, memo):
        return self

    def __copy__(self):
        return self


for _n in ("add radd sub rsub mul rmul truediv rtruediv floordiv rfloordiv mod rmod pow rpow neg pos abs "
           "lt le gt ge bool int float index round trunc floor ceil and rand or ror xor rxor lshift rshift "
           "rlshift rrshift invert divmod rdivmod complex format").split():
    setattr(SV, f"__{_n}__", _leak(f"__{_n}__"))


def is_sym(v):
    return isinstance(v, SV)


def contains_sym(v, depth=3):
    if isinstance(v, SV):
        return True
    if depth <= 0:
        return False
    if isinstance(v, (list, tuple, set, frozenset)):
        return any(contains_sym(x, depth - 1) for x in v)
    if isinstance(v, dict):
        return any(contains_sym(x, depth - 1) for x in v.values()) or any(contains_sym(x, depth - 1) for x in v.keys())
    return False


# ----------------------------------------------------------------------------- lifting constants
def pytype_of(v):
    if isinstance(v, bool):
        return BOOL
    if isinstance(v, int):
        return INT
    if isinstance(v, Decimal):
        return DEC
    if isinstance(v, float):
        return FLT
    if isinstance(v, Fraction):
        return DEC
    try:
        import numpy as np
        if isinstance(v, np.bool_):
            return BOOL
        if isinstance(v, np.integer):
            return INT
        if isinstance(v, np.floating):
            return FLT
    except ImportError:
        pass
    return None


def is_number(v):
    return isinstance(v, SV) or pytype_of(v) is not None


def frac_of(v):
    if isinstance(v, Fraction):
        return v
    if isinstance(v, Decimal):
        if not v.is_finite():
            raise Unsupported(f"non-finite Decimal {v} in symbolic arithmetic")
        return Fraction(v)
    if isinstance(v, float):
        if v != v or v in (float("inf"), float("-inf")):
            raise Unsupported(f"non-finite float {v} in symbolic arithmetic")
        return Fraction(v)
    return Fraction(int(v))


def realval(fr: Fraction):
    return z3.RealVal(f"{fr.numerator}/{fr.denominator}") if fr.denominator != 1 else z3.RealVal(fr.numerator)


def lift(v) -> SV:
    """Concrete Python number -> SV with the same type tag (exact value)."""
    if isinstance(v, SV):
        return v
    ty = pytype_of(v)
    if ty is None:
        raise Unsupported(f"cannot lift {type(v).__name__} to a symbolic number")
    if ty == BOOL:
        return SV(z3.BoolVal(bool(v)), BOOL)
    if ty == INT:
        return SV(z3.IntVal(int(v)), INT)
    return SV(realval(frac_of(v)), ty)


def as_int_term(s: SV):
    if s.ty == BOOL:
        return z3.If(s.t, z3.IntVal(1), z3.IntVal(0))
    return s.t


def as_real_term(s: SV):
    if s.ty == BOOL:
        return z3.If(s.t, z3.RealVal(1), z3.RealVal(0))
    if s.ty == INT:
        return z3.ToReal(s.t)
    return s.t


def as_bool_term(v):
    """Python truthiness of a (possibly symbolic) number/bool."""
    if isinstance(v, SV):
        if v.ty == BOOL:
            return v.t
        if v.ty == INT:
            return v.t != 0
        return v.t != 0
    return z3.BoolVal(bool(v))


def _arith_result_type(a: SV, b: SV, op: str):
    ta = INT if a.ty == BOOL else a.ty
    tb = INT if b.ty == BOOL else b.ty
    if ta == INT and tb == INT:
        return FLT if op == "/" else INT
    if {ta, tb} == {DEC, FLT}:
        return "TypeError"
    if DEC in (ta, tb):
        return DEC
    return FLT


class PyTypeError(Exception):
    pass


def simp(t):
    return z3.simplify(t) if z3.is_expr(t) and t.num_args() == 0 else t


def int_floordiv(a, b):
    """Python // on ints, given b != 0."""
    return z3.If(b > 0, a / b, (-a) / (-b))


def real_trunc(x):
    """int(x) for a real: truncation toward zero (z3 ToInt is floor)."""
    return z3.If(x >= 0, z3.ToInt(x), -z3.ToInt(-x))


def real_floor(x):
    return z3.ToInt(x)


def real_ceil(x):
    return -z3.ToInt(-x)


def mk_ite(c, a, b):
    """ite over Python values (numbers); returns SV or concrete when both identical."""
    if not isinstance(a, SV) and not isinstance(b, SV):
        try:
            if type(a) is type(b) and a == b:
                return a
        except Exception:
            pass
    if a is b:
        return a
    if hasattr(a, "__sym_ite__"):
        return a.__sym_ite__(c, b)
    if hasattr(b, "__sym_ite__"):
        return b.__sym_ite__(z3.Not(c), a)
    if not (is_number(a) and is_number(b)):
        raise Unsupported(f"cannot merge non-numeric values {type(a).__name__}/{type(b).__name__} under a symbolic condition")
    A, B = lift(a), lift(b)
    if A.ty == BOOL and B.ty == BOOL:
        return SV(z3.If(c, A.t, B.t), BOOL)
    ta = INT if A.ty == BOOL else A.ty
    tb = INT if B.ty == BOOL else B.ty
    if ta == INT and tb == INT:
        return SV(z3.If(c, as_int_term(A), as_int_term(B)), INT)
    ty = ta if ta != INT else tb
    if {ta, tb} == {DEC, FLT}:
        ty = DEC
    return SV(z3.If(c, as_real_term(A), as_real_term(B)), ty)


def to_concrete(model, s: SV):
    v = model.eval(s.t, model_completion=True)
    return z3val_to_py(v, s.ty)


def z3val_to_py(v, ty):
    if ty == BOOL:
        return bool(z3.is_true(v))
    if z3.is_int_value(v):
        n = v.as_long()
        return n if ty in (INT, BOOL) else (Decimal(n) if ty == DEC else float(n))
    if z3.is_rational_value(v):
        fr = Fraction(v.numerator_as_long(), v.denominator_as_long())
    elif z3.is_algebraic_value(v):
        a = v.approx(40)
        fr = Fraction(a.numerator_as_long(), a.denominator_as_long())
    else:
        raise ValueError(f"cannot concretise {v}")
    if ty == INT:
        return int(fr)
    if ty == FLT:
        return float(fr)
    return frac_to_decimal(fr)


def frac_to_decimal(fr: Fraction, digits=60) -> Decimal:
    import decimal
    with decimal.localcontext() as ctx:
        ctx.prec = digits
        return Decimal(fr.numerator) / Decimal(fr.denominator)
