"""Symbolic interpreter of real Python ASTs (the functions under /repo/demeter and the sidecar
contracts under /verif/contracts), generating verification conditions.

Design (DESIGN.md §2): values are ordinary Python objects, except numbers that depend on a
symbolic input, which are SV (z3 term + Python type tag).  Repo functions are *interpreted* from
their AST (re-read from disk on every run); code without Python source in the repo (builtins,
pandas containers, dataclass/NamedTuple constructors) runs natively and can only move symbols
around: any native arithmetic on an SV raises NativeLeak -> UNSUPPORTED (never a verdict).

Path exploration is by re-execution: a path is a list of decisions taken at symbolic branches.
"""
from __future__ import annotations
import ast, builtins, hashlib, inspect, math, operator, os, sys, types, decimal
from decimal import Decimal
from fractions import Fraction
import z3

from .sym import (SV, INT, DEC, FLT, BOOL, NativeLeak, Unsupported, MergeAbort, is_sym, contains_sym, lift, pytype_of,
                  is_number, as_int_term, as_real_term, as_bool_term, int_floordiv, real_trunc, real_floor,
                  real_ceil, mk_ite, frac_of, realval)

INTERP_ROOTS = [os.path.realpath(os.environ.get("DEMETER_REPO", "/repo")) + os.sep,
                os.path.realpath(os.path.join(os.path.dirname(__file__), "..", "contracts")) + os.sep]


# --------------------------------------------------------------------------------------------- signals
class ProgExc(Exception):
    """An exception raised by the interpreted program (explicitly or by a native callee)."""

    def __init__(self, exc, site=None):
        super().__init__(repr(exc))
        self.exc = exc
        self.site = site


class PathInfeasible(BaseException):
    pass


class PathEnd(BaseException):
    """Path deliberately ended (e.g. after checking loop-invariant preservation)."""


class _Return(BaseException):
    def __init__(self, v):
        self.v = v


class _Break(BaseException):
    pass


class _Continue(BaseException):
    pass


class StrOf:
    """str(sv): only useful as the argument of Decimal()/float()/int()."""

    def __init__(self, sv):
        self.sv = sv

    def __repr__(self):
        return f"StrOf({self.sv!r})"


# --------------------------------------------------------------------------------------------- source access
class Sources:
    """Parses files from disk (current working tree) and finds the AST of live function objects."""

    def __init__(self):
        self.trees = {}
        self.hashes = {}
        self.index = {}
        self.used = {}  # (file, qualname) -> (lineno, end_lineno)

    def tree(self, filename):
        filename = os.path.realpath(filename)
        if filename not in self.trees:
            src = open(filename, "rb").read()
            self.hashes[filename] = hashlib.sha256(src).hexdigest()
            t = ast.parse(src, filename)
            self.trees[filename] = t
            idx = {}
            for node in ast.walk(t):
                if isinstance(node, (ast.FunctionDef, ast.AsyncFunctionDef)):
                    first = min([node.lineno] + [d.lineno for d in node.decorator_list])
                    idx.setdefault((first, node.name), []).append(node)
                elif isinstance(node, ast.Lambda):
                    idx.setdefault((node.lineno, "<lambda>"), []).append(node)
            self.index[filename] = idx
        return self.trees[filename]

    def interpretable(self, func):
        code = getattr(func, "__code__", None)
        if code is None:
            return False
        fn = os.path.realpath(code.co_filename)
        return any(fn.startswith(r) for r in INTERP_ROOTS)

    def node_of(self, func):
        code = func.__code__
        fn = os.path.realpath(code.co_filename)
        self.tree(fn)
        cands = self.index[fn].get((code.co_firstlineno, code.co_name), [])
        if not cands:
            raise Unsupported(f"no AST for {code.co_name} at {fn}:{code.co_firstlineno} (file changed since import?)")
        node = cands[0]
        if len(cands) > 1:
            want = code.co_varnames[: code.co_argcount]
            m = [c for c in cands if tuple(a.arg for a in c.args.args) == tuple(want)]
            if len(m) >= 1:
                node = m[0]
            if len(m) > 1:
                try:
                    col = next(p for p in code.co_positions() if p[2] is not None)[2]
                    m2 = [c for c in m if c.col_offset <= col]
                    node = max(m2, key=lambda c: c.col_offset) if m2 else m[0]
                except StopIteration:
                    pass
        self.used[(fn, getattr(func, "__qualname__", code.co_name))] = (node.lineno, getattr(node, "end_lineno", node.lineno))
        if not hasattr(node, "_numbered"):
            number_loops(node)
            node._numbered = True
        return node

    def report(self):
        out = []
        for (fn, qn), (a, b) in sorted(self.used.items()):
            out.append({"file": fn, "qualname": qn, "lines": [a, b], "sha256": self.hashes.get(fn)})
        return out


SOURCES = Sources()


# --------------------------------------------------------------------------------------------- closures
class Closure:
    """A function or lambda defined inside interpreted code."""

    def __init__(self, interp, node, scopes, globs, qualname, cls_name):
        self.interp, self.node, self.scopes, self.globs = interp, node, scopes, globs
        self.__qualname__ = qualname
        self.__name__ = getattr(node, "name", "<lambda>")
        self.cls_name = cls_name
        self.defaults = None
        self.kw_defaults = None

    def __call__(self, *a, **k):
        return self.interp.call_closure(self, list(a), dict(k))

    def __get__(self, obj, objtype=None):
        if obj is None:
            return self
        return types.MethodType(self, obj)


class Frame:
    __slots__ = ("locals", "scopes", "globs", "qualname", "cls_name", "nonlocals", "globals_decl", "fileno")

    def __init__(self, locals_, scopes, globs, qualname, cls_name, fileno=""):
        self.locals, self.scopes, self.globs, self.qualname, self.cls_name = locals_, scopes, globs, qualname, cls_name
        self.nonlocals = set()
        self.globals_decl = set()
        self.fileno = fileno

    def lookup(self, name):
        if name in self.locals and name not in self.nonlocals:
            return self.locals[name]
        for s in self.scopes:
            if name in s:
                return s[name]
        if name in self.globs:
            return self.globs[name]
        if hasattr(builtins, name):
            return getattr(builtins, name)
        raise ProgExc(NameError(f"name '{name}' is not defined"))

    def store(self, name, v):
        if name in self.nonlocals:
            for s in self.scopes:
                if name in s:
                    s[name] = v
                    return
        if name in self.globals_decl:
            self.globs[name] = v
            return
        self.locals[name] = v


_BINOPS = {ast.Add: operator.add, ast.Sub: operator.sub, ast.Mult: operator.mul, ast.Div: operator.truediv,
           ast.FloorDiv: operator.floordiv, ast.Mod: operator.mod, ast.Pow: operator.pow, ast.LShift: operator.lshift,
           ast.RShift: operator.rshift, ast.BitAnd: operator.and_, ast.BitOr: operator.or_, ast.BitXor: operator.xor,
           ast.MatMult: operator.matmul}
_OPSYM = {ast.Add: "+", ast.Sub: "-", ast.Mult: "*", ast.Div: "/", ast.FloorDiv: "//", ast.Mod: "%", ast.Pow: "**",
          ast.LShift: "<<", ast.RShift: ">>", ast.BitAnd: "&", ast.BitOr: "|", ast.BitXor: "^"}
_CMPOPS = {ast.Eq: operator.eq, ast.NotEq: operator.ne, ast.Lt: operator.lt, ast.LtE: operator.le,
           ast.Gt: operator.gt, ast.GtE: operator.ge, ast.Is: operator.is_, ast.IsNot: operator.is_not}

_PY_TYPES = {INT: int, DEC: Decimal, FLT: float, BOOL: bool}


class Interp:
    def __init__(self, path, config=None):
        self.path = path            # engine.Path: branch(), assume(), vc(), fresh()
        self.cfg = config or {}
        self.call_depth = 0
        self.contracts = self.cfg.get("contracts", {})       # function object / qualname -> handler(interp, args, kwargs)
        self.loop_specs = self.cfg.get("loops", {})          # (qualname, ordinal) -> LoopSpec
        self.models = dict(DEFAULT_MODELS)
        self.models.update(self.cfg.get("models", {}))
        self.spec_depth = 0
        self.steps = 0
        self.max_steps = self.cfg.get("max_steps", 2_000_000)
        self.frozen_ids = self.cfg.get("frozen_ids")       # id(obj) -> label: frame (C02/C19) write barrier
        self.on_store = self.cfg.get("on_store")
        self.call_log = []

    # ------------------------------------------------------------------ entry points
    def call(self, f, *args, **kwargs):
        return self.call_value(f, list(args), dict(kwargs))

    def truth(self, v):
        """Python truthiness with branching on symbols."""
        if isinstance(v, SV):
            return self.path.branch(as_bool_term(v))
        if isinstance(v, StrOf):
            return True
        return bool(v)

    # ------------------------------------------------------------------ calls
    def call_value(self, f, args, kwargs):
        # 1. contracts / models keyed by the live object
        key = f
        if isinstance(f, types.MethodType):
            key = f.__func__
        h = self.contracts.get(key) if _hashable(key) else None
        if h is None:
            qn = getattr(key, "__qualname__", None)
            mod = getattr(key, "__module__", None)
            if qn is not None and mod is not None:
                h = self.contracts.get(f"{mod}.{qn}")
        if h is not None:
            if isinstance(f, types.MethodType):
                return h(self, [f.__self__] + args, kwargs)
            return h(self, args, kwargs)
        m = self.models.get(key) if _hashable(key) else None
        if m is not None:
            if isinstance(f, types.MethodType):
                return m(self, [f.__self__] + args, kwargs)
            return m(self, args, kwargs)
        # 2. interpreted closures
        if isinstance(f, Closure):
            return self.call_closure(f, args, kwargs)
        if isinstance(f, types.MethodType):
            if isinstance(f.__func__, Closure):
                return self.call_closure(f.__func__, [f.__self__] + args, kwargs)
            if SOURCES.interpretable(f.__func__):
                return self.call_function(f.__func__, [f.__self__] + args, kwargs)
        if isinstance(f, types.FunctionType) and SOURCES.interpretable(f) and not getattr(f, "__pyvc_native__", False):
            return self.call_function(f, args, kwargs)
        if isinstance(f, type):
            return self.instantiate(f, args, kwargs)
        if isinstance(f, (staticmethod, classmethod)):
            return self.call_value(f.__func__, args, kwargs)
        # bound builtin method on a symbolic value
        if isinstance(f, SVMethod):
            return f(self, args, kwargs)
        # 3. native
        return self.native_call(f, args, kwargs)

    def native_call(self, f, args, kwargs):
        slf = getattr(f, "__self__", None)
        if isinstance(slf, list) and getattr(f, "__name__", "") == "sort" and any(isinstance(x, SV) for x in slf):
            return self.sort_network(slf, kwargs)
        if any(contains_sym(a) for a in args) or any(contains_sym(a) for a in kwargs.values()):
            if isinstance(slf, str) and getattr(f, "__name__", "") == "format":
                return "<sym>"          # message text only (error messages, console output)
            if not _transparent(f):
                raise Unsupported(f"native call {_fname(f)} with symbolic argument has no model")
        try:
            return f(*args, **kwargs)
        except (NativeLeak, Unsupported, PathInfeasible, PathEnd, _Return, _Break, _Continue):
            raise
        except ProgExc:
            raise
        except RecursionError:
            raise
        except Exception as e:  # exception of the program under analysis, raised in native code
            raise ProgExc(e, site=f"native {_fname(f)}")

    def sort_network(self, lst, kwargs):
        """list.sort() on a short list of symbolic numbers: explicit compare-exchange network (bubble)."""
        if kwargs.get("key") is not None or len(lst) > 8:
            raise Unsupported("list.sort with key / more than 8 symbolic elements")
        self.barrier(lst, "list.sort")
        n = len(lst)
        rev = bool(kwargs.get("reverse", False))
        for i in range(n):
            for j in range(n - 1 - i):
                a, b = lst[j], lst[j + 1]
                c = self.compare(ast.Gt() if not rev else ast.Lt(), a, b)
                if isinstance(c, SV):
                    lst[j], lst[j + 1] = mk_ite(c.t, b, a), mk_ite(c.t, a, b)
                elif c:
                    lst[j], lst[j + 1] = b, a
        return None

    def instantiate(self, cls, args, kwargs):
        m = self.models.get(cls)
        if m is not None:
            return m(self, args, kwargs)
        init = cls.__dict__.get("__init__") if "__init__" in cls.__dict__ else _mro_lookup(cls, "__init__")
        new = _mro_lookup(cls, "__new__")
        if isinstance(init, types.FunctionType) and SOURCES.interpretable(init) and (new is object.__new__ or new is None):
            obj = object.__new__(cls)
            self.call_function(init, [obj] + args, kwargs)
            post = None
            return obj
        if isinstance(new, (types.FunctionType, staticmethod)) and SOURCES.interpretable(getattr(new, "__func__", new)):
            raise Unsupported(f"class {cls.__name__} with interpreted __new__")
        # dataclass / NamedTuple / Enum / builtin containers / exceptions: generated or C constructors only store
        if any(contains_sym(a) for a in args) or any(contains_sym(a) for a in kwargs.values()):
            if not (_is_record_class(cls) or cls in (list, tuple, dict, set, frozenset) or (isinstance(cls, type) and issubclass(cls, BaseException))):
                raise Unsupported(f"constructor {cls.__name__} with symbolic argument has no model")
        try:
            obj = cls(*args, **kwargs)
        except (NativeLeak, Unsupported):
            raise
        except ProgExc:
            raise
        except Exception as e:
            raise ProgExc(e, site=f"constructor {cls.__name__}")
        return obj

    def call_function(self, func, args, kwargs):
        if getattr(func, "__pyvc_spec__", False):
            self.spec_depth += 1
            try:
                return self._call_function(func, args, kwargs)
            finally:
                self.spec_depth -= 1
        return self._call_function(func, args, kwargs)

    def _call_function(self, func, args, kwargs):
        node = SOURCES.node_of(func)
        code = func.__code__
        scopes = []
        if func.__closure__:
            scopes.append({n: c.cell_contents for n, c in zip(code.co_freevars, func.__closure__) if _cell_filled(c)})
        qn = func.__qualname__
        cls_name = _class_of_qualname(qn)
        defaults = list(func.__defaults__ or ())
        kwdefaults = dict(func.__kwdefaults__ or {})
        return self._run(node, args, kwargs, scopes, func.__globals__, qn, cls_name, defaults, kwdefaults, code.co_filename)

    def call_closure(self, c: Closure, args, kwargs):
        return self._run(c.node, args, kwargs, c.scopes, c.globs, c.__qualname__, c.cls_name, c.defaults, c.kw_defaults, "")

    def _run(self, node, args, kwargs, scopes, globs, qualname, cls_name, defaults, kwdefaults, filename):
        if self.path.assumes and not self.spec_depth:
            # guarded (merged) evaluation must be free of side effects: an interpreted callee (e.g. a property getter that fills a
            # cache) could write to the heap under the guard, and that write would survive on the other side of the merge
            raise MergeAbort(f"call of {qualname} inside merged evaluation")
        self.call_depth += 1
        if self.call_depth > 80:
            raise Unsupported("call depth > 80 (recursion?)")
        try:
            loc = self.bind_args(node.args, args, kwargs, defaults, kwdefaults, qualname)
            fr = Frame(loc, scopes, globs, qualname, cls_name, filename)
            self.call_log.append(qualname)
            if isinstance(node, ast.Lambda):
                return self.eval(node.body, fr)
            fr_loop_counter = [0]
            fr.locals.setdefault("__loopctr__", fr_loop_counter)
            try:
                self.exec_block(node.body, fr)
            except _Return as r:
                return r.v
            return None
        finally:
            self.call_depth -= 1

    def bind_args(self, a: ast.arguments, args, kwargs, defaults, kwdefaults, qualname):
        loc = {}
        pos = [x.arg for x in a.posonlyargs] + [x.arg for x in a.args]
        kwargs = dict(kwargs)
        n = len(pos)
        if len(args) > n and a.vararg is None:
            raise ProgExc(TypeError(f"{qualname}() takes {n} positional arguments but {len(args)} were given"))
        for i, name in enumerate(pos):
            if i < len(args):
                loc[name] = args[i]
                if name in kwargs:
                    raise ProgExc(TypeError(f"{qualname}() got multiple values for argument '{name}'"))
            elif name in kwargs:
                loc[name] = kwargs.pop(name)
            else:
                di = i - (n - len(defaults))
                if di < 0:
                    raise ProgExc(TypeError(f"{qualname}() missing required positional argument '{name}'"))
                loc[name] = defaults[di]
        if a.vararg is not None:
            loc[a.vararg.arg] = tuple(args[n:])
        for x in a.kwonlyargs:
            if x.arg in kwargs:
                loc[x.arg] = kwargs.pop(x.arg)
            elif kwdefaults and x.arg in kwdefaults:
                loc[x.arg] = kwdefaults[x.arg]
            else:
                raise ProgExc(TypeError(f"{qualname}() missing keyword-only argument '{x.arg}'"))
        if a.kwarg is not None:
            loc[a.kwarg.arg] = kwargs
        elif kwargs:
            raise ProgExc(TypeError(f"{qualname}() got an unexpected keyword argument '{next(iter(kwargs))}'"))
        return loc

    # ------------------------------------------------------------------ statements
    def exec_block(self, stmts, fr):
        for s in stmts:
            self.exec_stmt(s, fr)

    def exec_stmt(self, s, fr):
        self.steps += 1
        if self.steps > self.max_steps:
            raise Unsupported("step budget exceeded")
        m = getattr(self, "x_" + type(s).__name__, None)
        if m is None:
            raise Unsupported(f"statement {type(s).__name__} at {fr.qualname}:{s.lineno}")
        return m(s, fr)

    def x_Expr(self, s, fr):
        if isinstance(s.value, ast.Constant):
            return  # docstring
        self.eval(s.value, fr)

    def x_Pass(self, s, fr):
        pass

    def x_Import(self, s, fr):
        for al in s.names:
            mod = __import__(al.name)
            if al.asname:
                for part in al.name.split(".")[1:]:
                    mod = getattr(mod, part)
                fr.store(al.asname, mod)
            else:
                fr.store(al.name.split(".")[0], mod)

    def x_ImportFrom(self, s, fr):
        import importlib
        pkg = fr.globs.get("__package__")
        mod = importlib.import_module("." * s.level + (s.module or ""), pkg) if s.level else importlib.import_module(s.module)
        for al in s.names:
            try:
                v = getattr(mod, al.name)
            except AttributeError:
                v = importlib.import_module(mod.__name__ + "." + al.name)      # from package import submodule
            fr.store(al.asname or al.name, v)

    def x_Global(self, s, fr):
        fr.globals_decl.update(s.names)

    def x_Nonlocal(self, s, fr):
        fr.nonlocals.update(s.names)

    def x_Return(self, s, fr):
        raise _Return(self.eval(s.value, fr) if s.value is not None else None)

    def x_Break(self, s, fr):
        raise _Break()

    def x_Continue(self, s, fr):
        raise _Continue()

    def x_Delete(self, s, fr):
        for t in s.targets:
            if isinstance(t, ast.Name):
                fr.locals.pop(t.id, None)
            elif isinstance(t, ast.Subscript):
                obj = self.eval(t.value, fr)
                k = self.eval_slice(t.slice, fr)
                self.barrier(obj, "del item")
                try:
                    del obj[k]
                except NativeLeak:
                    raise
                except Exception as e:
                    raise ProgExc(e)
            elif isinstance(t, ast.Attribute):
                obj = self.eval(t.value, fr)
                self.barrier(obj, "del attr")
                try:
                    delattr(obj, self.mangle(t.attr, fr))
                except Exception as e:
                    raise ProgExc(e)
            else:
                raise Unsupported("del target")

    def x_Assign(self, s, fr):
        v = self.eval(s.value, fr)
        for t in s.targets:
            self.assign(t, v, fr)

    def x_AnnAssign(self, s, fr):
        if s.value is not None:
            self.assign(s.target, self.eval(s.value, fr), fr)

    def x_AugAssign(self, s, fr):
        t = s.target
        if isinstance(t, ast.Name):
            cur = fr.lookup(t.id)
            new = self.aug(s.op, cur, self.eval(s.value, fr))
            fr.store(t.id, new)
        elif isinstance(t, ast.Attribute):
            obj = self.eval(t.value, fr)
            cur = self.getattr(obj, self.mangle(t.attr, fr))
            new = self.aug(s.op, cur, self.eval(s.value, fr))
            self.setattr(obj, self.mangle(t.attr, fr), new)
        elif isinstance(t, ast.Subscript):
            obj = self.eval(t.value, fr)
            k = self.eval_slice(t.slice, fr)
            cur = self.getitem(obj, k)
            new = self.aug(s.op, cur, self.eval(s.value, fr))
            self.setitem(obj, k, new)
        else:
            raise Unsupported("augassign target")

    def aug(self, op, cur, val):
        if isinstance(cur, list) and isinstance(op, ast.Add) and not isinstance(cur, SV):
            self.barrier(cur, "list +=")
            cur.extend(val)
            return cur
        return self.binop(op, cur, val)

    def assign(self, t, v, fr):
        if isinstance(t, ast.Name):
            fr.store(t.id, v)
        elif isinstance(t, (ast.Tuple, ast.List)):
            vals = self.unpack(v, len(t.elts), any(isinstance(e, ast.Starred) for e in t.elts))
            if any(isinstance(e, ast.Starred) for e in t.elts):
                raise Unsupported("starred assignment")
            for e, x in zip(t.elts, vals):
                self.assign(e, x, fr)
        elif isinstance(t, ast.Attribute):
            obj = self.eval(t.value, fr)
            self.setattr(obj, self.mangle(t.attr, fr), v)
        elif isinstance(t, ast.Subscript):
            obj = self.eval(t.value, fr)
            k = self.eval_slice(t.slice, fr)
            self.setitem(obj, k, v)
        else:
            raise Unsupported(f"assignment target {type(t).__name__}")

    def unpack(self, v, n, starred=False):
        if isinstance(v, SV):
            raise ProgExc(TypeError("cannot unpack non-iterable number"))
        try:
            vals = list(self.iterate(v))
        except ProgExc:
            raise
        if len(vals) != n and not starred:
            raise ProgExc(ValueError(f"unpack: expected {n} values, got {len(vals)}"))
        return vals

    def iterate(self, v):
        if isinstance(v, SV):
            raise ProgExc(TypeError("number is not iterable"))
        if hasattr(v, "__sym_iter__"):
            return v.__sym_iter__(self)
        try:
            return iter(v)
        except Exception as e:
            raise ProgExc(e)

    def x_If(self, s, fr):
        c = self.eval(s.test, fr)
        if isinstance(c, SV):
            ct = z3.simplify(as_bool_term(c))
            if not (z3.is_true(ct) or z3.is_false(ct)) and self.cfg.get("merge_ifs", True) \
                    and _simple_block(s.body) and _simple_block(s.orelse):
                if self.try_merge_if(ct, s, fr):
                    return
            taken = self.path.branch(ct)
        else:
            taken = self.truth(c)
        self.exec_block(s.body if taken else s.orelse, fr)

    def try_merge_if(self, ct, s, fr):
        """Both branches only assign local names with pure arithmetic: merge with ite instead of forking."""
        names = _assigned_names(s.body) | _assigned_names(s.orelse)
        if any(n in fr.nonlocals or n in fr.globals_decl for n in names):
            return False
        saved = dict(fr.locals)
        try:
            self.path.push_assume(ct)
            try:
                self.exec_block(s.body, fr)
            finally:
                self.path.pop_assume()
            env_t = {n: fr.locals.get(n, _MISSING) for n in names}
            fr.locals.clear(); fr.locals.update(saved)
            self.path.push_assume(z3.Not(ct))
            try:
                self.exec_block(s.orelse, fr)
            finally:
                self.path.pop_assume()
            env_f = {n: fr.locals.get(n, _MISSING) for n in names}
            merged = {}
            for n in names:
                a, b = env_t[n], env_f[n]
                if a is _MISSING or b is _MISSING:
                    raise _NoMerge()
                merged[n] = mk_ite(ct, a, b)
        except (_NoMerge, Unsupported, ProgExc):
            fr.locals.clear(); fr.locals.update(saved)
            return False
        fr.locals.clear(); fr.locals.update(saved)
        fr.locals.update(merged)
        return True

    def x_While(self, s, fr):
        spec = self.loop_spec(s, fr)
        if spec is not None:
            return spec.run_while(self, s, fr)
        n = 0
        bound = self.cfg.get("while_unroll", 64)
        while True:
            c = self.eval(s.test, fr)
            if not self.truth(c):
                break
            n += 1
            if n > bound:
                raise Unsupported(f"while loop at {fr.qualname}:{s.lineno} exceeded unroll bound {bound} without invariant")
            try:
                self.exec_block(s.body, fr)
            except _Break:
                return
            except _Continue:
                continue
        self.exec_block(s.orelse, fr)

    def loop_spec(self, s, fr):
        ctr = fr.locals.get("__loopctr__")
        if ctr is None:
            return None
        # ordinal of this loop statement within the function, by source order (stable under renames)
        key = (fr.qualname, getattr(s, "_ordinal", None))
        if key[1] is None:
            return None
        return self.loop_specs.get(key)

    def x_For(self, s, fr):
        it = self.eval(s.iter, fr)
        spec = self.loop_spec(s, fr)
        if spec is not None:
            return spec.run_for(self, s, fr, it)
        if hasattr(it, "__sym_len__") and not hasattr(it, "__sym_iter__"):
            raise Unsupported(f"for loop over symbolic-length sequence at {fr.qualname}:{s.lineno} needs an invariant")
        for x in self.iterate(it):
            self.assign(s.target, x, fr)
            try:
                self.exec_block(s.body, fr)
            except _Break:
                return
            except _Continue:
                continue
        self.exec_block(s.orelse, fr)

    def x_Raise(self, s, fr):
        if s.exc is None:
            cur = fr.locals.get("__current_exc__")
            if cur is None:
                raise ProgExc(RuntimeError("No active exception to reraise"))
            raise cur
        e = self.eval(s.exc, fr)
        if isinstance(e, type):
            e = self.instantiate(e, [], {})
        raise ProgExc(e, site=f"{fr.qualname}:{s.lineno}")

    def x_Assert(self, s, fr):
        c = self.eval(s.test, fr)
        if not self.truth(c):
            msg = self.eval(s.msg, fr) if s.msg is not None else ""
            raise ProgExc(AssertionError(msg), site=f"{fr.qualname}:{s.lineno}")

    def x_Try(self, s, fr):
        try:
            try:
                self.exec_block(s.body, fr)
            except ProgExc as pe:
                for h in s.handlers:
                    if h.type is None:
                        match = True
                    else:
                        ht = self.eval(h.type, fr)
                        match = isinstance(pe.exc, ht)
                    if match:
                        if h.name:
                            fr.store(h.name, pe.exc)
                        prev = fr.locals.get("__current_exc__")
                        fr.locals["__current_exc__"] = pe
                        try:
                            self.exec_block(h.body, fr)
                        finally:
                            fr.locals["__current_exc__"] = prev
                        break
                else:
                    raise
            else:
                self.exec_block(s.orelse, fr)
        finally:
            if s.finalbody:
                self.exec_block(s.finalbody, fr)

    def x_With(self, s, fr):
        """with <ctx> [as name]: body — the context manager's __enter__/__exit__ run natively (progress bars, locks, files);
        an exception of the program is handed to __exit__ and re-raised unless it returns a true value"""
        mgrs = []
        for item in s.items:
            ctx = self.eval(item.context_expr, fr)
            val = self.native_call(type(ctx).__enter__, [ctx], {})
            mgrs.append(ctx)
            if item.optional_vars is not None:
                self.assign(item.optional_vars, val, fr)
        try:
            self.exec_block(s.body, fr)
        except ProgExc as pe:
            swallow = False
            for ctx in reversed(mgrs):
                if self.native_call(type(ctx).__exit__, [ctx, type(pe.exc), pe.exc, None], {}):
                    swallow = True
            if not swallow:
                raise
            return
        except (_Return, _Break, _Continue):
            for ctx in reversed(mgrs):
                self.native_call(type(ctx).__exit__, [ctx, None, None, None], {})
            raise
        for ctx in reversed(mgrs):
            self.native_call(type(ctx).__exit__, [ctx, None, None, None], {})

    def x_FunctionDef(self, s, fr):
        c = Closure(self, s, [fr.locals] + fr.scopes, fr.globs, fr.qualname + ".<locals>." + s.name, fr.cls_name)
        c.defaults = [self.eval(d, fr) for d in s.args.defaults]
        c.kw_defaults = {a.arg: self.eval(d, fr) for a, d in zip(s.args.kwonlyargs, s.args.kw_defaults) if d is not None}
        f = c
        for d in reversed(s.decorator_list):
            f = self.call_value(self.eval(d, fr), [f], {})
        fr.store(s.name, f)

    # ------------------------------------------------------------------ expressions
    def eval(self, e, fr):
        m = getattr(self, "e_" + type(e).__name__, None)
        if m is None:
            raise Unsupported(f"expression {type(e).__name__} at {fr.qualname}:{getattr(e, 'lineno', '?')}")
        return m(e, fr)

    def e_Constant(self, e, fr):
        return e.value

    def e_Name(self, e, fr):
        return fr.lookup(e.id)

    def e_Tuple(self, e, fr):
        return tuple(self.eval_seq(e.elts, fr))

    def e_List(self, e, fr):
        return list(self.eval_seq(e.elts, fr))

    def e_Set(self, e, fr):
        return set(self.eval_seq(e.elts, fr))

    def eval_seq(self, elts, fr):
        out = []
        for x in elts:
            if isinstance(x, ast.Starred):
                out.extend(self.iterate(self.eval(x.value, fr)))
            else:
                out.append(self.eval(x, fr))
        return out

    def e_Dict(self, e, fr):
        d = {}
        for k, v in zip(e.keys, e.values):
            if k is None:
                d.update(self.eval(v, fr))
            else:
                d[self.eval(k, fr)] = self.eval(v, fr)
        return d

    def e_JoinedStr(self, e, fr):
        parts = []
        for v in e.values:
            if isinstance(v, ast.Constant):
                parts.append(str(v.value))
            else:
                x = self.eval(v.value, fr)
                if contains_sym(x):
                    parts.append("<sym>")
                else:
                    try:
                        if v.format_spec is not None:
                            spec = self.e_JoinedStr(v.format_spec, fr)
                            parts.append(format(x, spec))
                        elif v.conversion == 114:
                            parts.append(repr(x))
                        else:
                            parts.append(str(x))
                    except NativeLeak:
                        parts.append("<sym>")
                    except Exception as ex:
                        raise ProgExc(ex)
        return "".join(parts)

    def e_Lambda(self, e, fr):
        c = Closure(self, e, [fr.locals] + fr.scopes, fr.globs, fr.qualname + ".<locals>.<lambda>", fr.cls_name)
        c.defaults = [self.eval(d, fr) for d in e.args.defaults]
        c.kw_defaults = {a.arg: self.eval(d, fr) for a, d in zip(e.args.kwonlyargs, e.args.kw_defaults) if d is not None}
        return c

    def e_IfExp(self, e, fr):
        c = self.eval(e.test, fr)
        if isinstance(c, SV):
            ct = z3.simplify(as_bool_term(c))
            if not (z3.is_true(ct) or z3.is_false(ct)) and _pure_expr(e.body) and _pure_expr(e.orelse):
                try:
                    self.path.push_assume(ct)
                    try:
                        a = self.eval(e.body, fr)
                    finally:
                        self.path.pop_assume()
                    self.path.push_assume(z3.Not(ct))
                    try:
                        b = self.eval(e.orelse, fr)
                    finally:
                        self.path.pop_assume()
                    return mk_ite(ct, a, b)
                except (Unsupported, ProgExc):
                    pass
            return self.eval(e.body if self.path.branch(ct) else e.orelse, fr)
        return self.eval(e.body if self.truth(c) else e.orelse, fr)

    def e_BoolOp(self, e, fr):
        is_and = isinstance(e.op, ast.And)
        v = None
        acc = None  # accumulated symbolic term when operands are pure
        for i, x in enumerate(e.values):
            v = self.eval(x, fr)
            last = i == len(e.values) - 1
            if isinstance(v, SV) and v.ty == BOOL:
                rest_pure = all(_pure_expr(y) for y in e.values[i + 1:])
                if rest_pure and not last:
                    # evaluate the rest under the guard, combine without forking
                    try:
                        guard = v.t if is_and else z3.Not(v.t)
                        self.path.push_assume(guard)
                        try:
                            rest = [self.eval(y, fr) for y in e.values[i + 1:]]
                        finally:
                            self.path.pop_assume()
                        if all((isinstance(r, SV) and r.ty == BOOL) or isinstance(r, bool) for r in rest):
                            terms = [v.t] + [as_bool_term(r) for r in rest]
                            return SV(z3.And(*terms) if is_and else z3.Or(*terms), BOOL)
                    except (Unsupported, ProgExc):
                        pass
                if last:
                    return v
                t = self.path.branch(v.t)
                if is_and and not t:
                    return False
                if (not is_and) and t:
                    return True
                continue
            if last:
                return v
            t = self.truth(v)
            if is_and and not t:
                return v
            if (not is_and) and t:
                return v
        return v

    def e_UnaryOp(self, e, fr):
        v = self.eval(e.operand, fr)
        if isinstance(e.op, ast.Not):
            if isinstance(v, SV):
                return SV(z3.Not(as_bool_term(v)), BOOL)
            return not self.truth(v)
        if isinstance(e.op, ast.USub) and hasattr(v, "__sym_binop__") and hasattr(v, "total_seconds"):
            from .symtime import neg_delta
            return neg_delta(v)
        if isinstance(v, SV):
            if isinstance(e.op, ast.USub):
                if v.ty == BOOL:
                    return SV(-as_int_term(v), INT)
                return SV(-v.t, v.ty)
            if isinstance(e.op, ast.UAdd):
                return v
            raise Unsupported("unary op on symbol")
        try:
            return {ast.USub: operator.neg, ast.UAdd: operator.pos, ast.Invert: operator.invert}[type(e.op)](v)
        except Exception as ex:
            raise ProgExc(ex)

    def e_BinOp(self, e, fr):
        a = self.eval(e.left, fr)
        b = self.eval(e.right, fr)
        return self.binop(e.op, a, b)

    def binop(self, op, a, b):
        if isinstance(a, StrOf) or isinstance(b, StrOf):
            return "<sym>"
        if not isinstance(a, SV) and not isinstance(b, SV):
            if hasattr(a, "__sym_binop__"):
                return a.__sym_binop__(self, _OPSYM[type(op)], b, False)
            if hasattr(b, "__sym_binop__"):
                return b.__sym_binop__(self, _OPSYM[type(op)], a, True)
            if (self.cfg.get("ideal_floors") and isinstance(op, ast.Pow) and isinstance(a, int) and isinstance(b, int)
                    and not isinstance(a, bool) and b < 0 and a != 0):
                # stated idealisation: 10 ** -12 is the exact rational (natively a float literal, 2e-17 relative off)
                self.path.note_assumption("IDEALISED: int ** negative-int taken as the exact rational (natively a rounded float)")
                return Fraction(a) ** b
            try:
                return _BINOPS[type(op)](a, b)
            except NativeLeak:
                raise
            except Exception as ex:
                raise ProgExc(ex)
        if isinstance(a, str) or isinstance(b, str):
            if isinstance(op, ast.Mod) and isinstance(a, str):
                return "<sym>"
            raise ProgExc(TypeError("unsupported operand str and number"))
        if hasattr(a, "__sym_binop__"):
            return a.__sym_binop__(self, _OPSYM[type(op)], b, False)
        if hasattr(b, "__sym_binop__"):
            return b.__sym_binop__(self, _OPSYM[type(op)], a, True)
        import datetime as _dt
        if isinstance(a, _dt.timedelta) or isinstance(b, _dt.timedelta):
            from .symtime import SymDelta, _m
            if isinstance(a, _dt.timedelta):
                return SymDelta(SV(_m(a), INT)).__sym_binop__(self, _OPSYM[type(op)], b, False)
            return SymDelta(SV(_m(b), INT)).__sym_binop__(self, _OPSYM[type(op)], a, True)
        if not (is_number(a) and is_number(b)):
            raise Unsupported(f"binop {_OPSYM[type(op)]} on {type(a).__name__}, {type(b).__name__}")
        return self.sym_arith(_OPSYM[type(op)], lift(a), lift(b), a, b)

    def sym_arith(self, op, A: SV, B: SV, a_raw=None, b_raw=None):
        ta = INT if A.ty == BOOL else A.ty
        tb = INT if B.ty == BOOL else B.ty
        if {ta, tb} == {DEC, FLT} and op in "+-*/ // % **":
            raise ProgExc(TypeError(f"unsupported operand type(s) for {op}: Decimal and float"))
        both_int = ta == INT and tb == INT
        rty = INT if both_int else (DEC if DEC in (ta, tb) else FLT)
        if op in ("+", "-", "*"):
            if both_int:
                x, y = as_int_term(A), as_int_term(B)
            else:
                x, y = as_real_term(A), as_real_term(B)
            t = x + y if op == "+" else x - y if op == "-" else x * y
            return SV(t, rty)
        if op == "/":
            x, y = as_real_term(A), as_real_term(B)
            self.check_div_zero(y, DEC in (ta, tb))
            return SV(x / y, FLT if both_int else rty)
        if op == "//" and self.cfg.get("ideal_floors"):
            # stated idealisation (C09 relational obligations): floor division taken as exact division
            x, y = as_real_term(A), as_real_term(B)
            self.check_div_zero(y, DEC in (ta, tb))
            self.path.note_assumption("IDEALISED: a // b taken as the exact quotient a / b (floor dropped)")
            return SV(x / y, DEC)
        if op in ("//", "%"):
            if both_int:
                x, y = as_int_term(A), as_int_term(B)
                self.check_div_zero(y, False)
                yv = _int_const(y)
                if yv is not None and yv > 0:
                    q = x / y
                else:
                    q = int_floordiv(x, y)
                return SV(q if op == "//" else x - y * q, INT)
            x, y = as_real_term(A), as_real_term(B)
            self.check_div_zero(y, DEC in (ta, tb))
            if rty == DEC:   # Decimal // and % truncate toward zero
                q = real_trunc(x / y)
            else:
                q = real_floor(x / y)
            return SV(z3.ToReal(q) if op == "//" else x - y * z3.ToReal(q), rty)
        if op == "**":
            return self.sym_pow(A, B, a_raw, b_raw)
        if op in (">>", "<<"):
            if not both_int:
                raise ProgExc(TypeError("shift on non-int"))
            n = _int_const(as_int_term(B))
            if n is None or n < 0:
                raise Unsupported("shift by symbolic amount")
            x = as_int_term(A)
            return SV(x / z3.IntVal(2 ** n) if op == ">>" else x * z3.IntVal(2 ** n), INT)
        if op == "&":
            if not both_int:
                raise ProgExc(TypeError("& on non-int"))
            # x & single-bit mask, x >= 0 (side obligation)
            for X, M in ((A, B), (B, A)):
                m = _int_const(as_int_term(M))
                if m is not None and m > 0 and (m & (m - 1)) == 0:
                    x = as_int_term(X)
                    self.path.vc("bitand-operand-nonneg", x >= 0, kind="side")
                    return SV(z3.If((x / z3.IntVal(m)) % 2 == 1, z3.IntVal(m), z3.IntVal(0)), INT)
            raise Unsupported("& with non single-bit mask on symbol")
        raise Unsupported(f"symbolic operator {op}")

    def sym_pow(self, A, B, a_raw, b_raw):
        bc = None
        if not isinstance(b_raw, SV) and b_raw is not None:
            bc = b_raw
        if bc is not None and pytype_of(bc) in (INT, BOOL) and 0 <= int(bc) <= 8:
            n = int(bc)
            base = as_int_term(A) if A.ty in (INT, BOOL) else as_real_term(A)
            t = z3.IntVal(1) if A.ty in (INT, BOOL) else z3.RealVal(1)
            for _ in range(n):
                t = t * base
            return SV(t, INT if A.ty in (INT, BOOL) else A.ty)
        if bc is not None and pytype_of(bc) in (INT, BOOL) and -8 <= int(bc) < 0 and A.ty in (DEC, FLT):
            base = as_real_term(A)
            self.check_div_zero(base, A.ty == DEC)
            t = z3.RealVal(1)
            for _ in range(-int(bc)):
                t = t * base
            return SV(1 / t, A.ty)
        ac = a_raw if (a_raw is not None and not isinstance(a_raw, SV)) else None
        if ac is not None and pytype_of(ac) == INT and int(ac) == 10 and B.ty == INT:
            # 10 ** d with symbolic decimals d: uninterpreted positive power of ten
            f = self.path.uf("pow10", z3.IntSort(), z3.IntSort())
            t = f(B.t)
            self.path.assume(z3.Implies(B.t >= 0, t >= 1), "pow10(d) >= 1 for d >= 0")
            self.path.vc("pow10-exponent-nonneg", B.t >= 0, kind="side")
            return SV(t, INT)
        h = self.cfg.get("pow_model")
        if h is not None:
            return h(self, A, B, a_raw, b_raw)
        raise Unsupported("symbolic ** without model")

    def check_div_zero(self, y, is_decimal):
        if self.spec_depth:
            return     # specification text: total real division
        c = z3.simplify(y == 0)
        if z3.is_false(c):
            return
        if self.path.branch(c):
            exc = decimal.DivisionByZero("division by zero") if is_decimal else ZeroDivisionError("division by zero")
            raise ProgExc(exc, site="division")

    def e_Compare(self, e, fr):
        left = self.eval(e.left, fr)
        result = None
        for op, rexpr in zip(e.ops, e.comparators):
            right = self.eval(rexpr, fr)
            r = self.compare(op, left, right)
            if result is None:
                result = r
            else:
                result = self.and_values(result, r)
            if not isinstance(result, SV) and not result and len(e.ops) > 1:
                return result
            left = right
        return result

    def and_values(self, a, b):
        if isinstance(a, SV) or isinstance(b, SV):
            return SV(z3.And(as_bool_term(a), as_bool_term(b)), BOOL)
        return a and b

    def compare(self, op, a, b):
        if isinstance(op, (ast.Is, ast.IsNot)):
            if isinstance(a, SV) or isinstance(b, SV):
                r = (a is b) or (isinstance(a, SV) and isinstance(b, SV) and a.t.eq(b.t))
                if not r and isinstance(a, SV) and isinstance(b, SV):
                    raise Unsupported("identity comparison between two symbols")
            else:
                r = a is b
            return r if isinstance(op, ast.Is) else not r
        if isinstance(op, (ast.In, ast.NotIn)):
            r = self.contains(b, a)
            if isinstance(op, ast.NotIn):
                return SV(z3.Not(r.t), BOOL) if isinstance(r, SV) else (not r)
            return r
        if isinstance(a, SV) or isinstance(b, SV):
            if hasattr(a, "__sym_compare__"):
                return a.__sym_compare__(self, type(op).__name__, b, False)
            if hasattr(b, "__sym_compare__"):
                return b.__sym_compare__(self, type(op).__name__, a, True)
            if not (is_number(a) and is_number(b)):
                if isinstance(op, ast.Eq):
                    return False
                if isinstance(op, ast.NotEq):
                    return True
                raise ProgExc(TypeError(f"comparison between {type(a).__name__} and {type(b).__name__}"))
            if _is_nan(a) or _is_nan(b):
                return isinstance(op, ast.NotEq)        # every comparison with NaN is False, except !=
            inf_r = _inf_compare(op, a, b)
            if inf_r is not None:
                return inf_r
            A, B = lift(a), lift(b)
            if A.ty == BOOL and B.ty == BOOL and isinstance(op, (ast.Eq, ast.NotEq)):
                t = A.t == B.t
                return SV(t if isinstance(op, ast.Eq) else z3.Not(t), BOOL)
            if A.ty in (INT, BOOL) and B.ty in (INT, BOOL):
                x, y = as_int_term(A), as_int_term(B)
            else:
                x, y = as_real_term(A), as_real_term(B)
            t = {ast.Eq: lambda: x == y, ast.NotEq: lambda: x != y, ast.Lt: lambda: x < y, ast.LtE: lambda: x <= y,
                 ast.Gt: lambda: x > y, ast.GtE: lambda: x >= y}[type(op)]()
            return SV(t, BOOL)
        if hasattr(a, "__sym_compare__"):
            return a.__sym_compare__(self, type(op).__name__, b, False)
        if hasattr(b, "__sym_compare__"):
            return b.__sym_compare__(self, type(op).__name__, a, True)
        try:
            return _CMPOPS[type(op)](a, b)
        except NativeLeak:
            raise
        except Exception as ex:
            raise ProgExc(ex)

    def contains(self, container, x):
        if hasattr(container, "__sym_contains__"):
            return container.__sym_contains__(self, x)
        if isinstance(container, SV):
            raise ProgExc(TypeError("argument of type number is not iterable"))
        if isinstance(container, (list, tuple)) and (_symbolic(x) or any(_symbolic(y) for y in container)):
            terms = []
            for y in container:
                r = self.compare(ast.Eq(), x, y)
                if isinstance(r, SV):
                    terms.append(r.t)
                elif r:
                    return True
            return SV(z3.Or(*terms), BOOL) if terms else False
        try:
            return x in container
        except NativeLeak:
            raise
        except Exception as ex:
            raise ProgExc(ex)

    def e_Call(self, e, fr):
        # super() needs the frame
        if isinstance(e.func, ast.Name) and e.func.id == "super" and not e.args:
            return self.make_super(fr)
        f = self.eval(e.func, fr)
        args = []
        for a in e.args:
            if isinstance(a, ast.Starred):
                args.extend(self.iterate(self.eval(a.value, fr)))
            else:
                args.append(self.eval(a, fr))
        kwargs = {}
        for k in e.keywords:
            if k.arg is None:
                kwargs.update(self.eval(k.value, fr))
            else:
                kwargs[k.arg] = self.eval(k.value, fr)
        return self.call_value(f, args, kwargs)

    def make_super(self, fr):
        self_obj = fr.locals.get("self")
        if self_obj is None:
            first = next(iter(fr.locals.values()))
            self_obj = first
        cls = None
        for k in type(self_obj).__mro__:
            if k.__name__ == fr.cls_name:
                cls = k
                break
        if cls is None:
            raise Unsupported("super(): class not found")
        return super(cls, self_obj)

    def e_Attribute(self, e, fr):
        obj = self.eval(e.value, fr)
        return self.getattr(obj, self.mangle(e.attr, fr))

    def mangle(self, name, fr):
        if name.startswith("__") and not name.endswith("__") and fr.cls_name:
            return "_" + fr.cls_name.lstrip("_") + name
        return name

    def getattr(self, obj, name):
        if isinstance(obj, SV):
            return sv_attr(self, obj, name)
        if hasattr(obj, "__sym_getattr__"):
            return obj.__sym_getattr__(self, name)
        # properties with interpretable getters run through the interpreter
        if not isinstance(obj, type):
            for k in type(obj).__mro__:
                d = k.__dict__.get(name, _MISSING)
                if d is not _MISSING:
                    if isinstance(d, property) and d.fget is not None and SOURCES.interpretable(d.fget):
                        return self.call_value(d.fget, [obj], {})
                    break
        try:
            return getattr(obj, name)
        except NativeLeak:
            raise
        except AttributeError as ex:
            raise ProgExc(ex)
        except Exception as ex:
            raise ProgExc(ex)

    def setattr(self, obj, name, v):
        self.barrier(obj, f"attr {name}")
        if isinstance(obj, SV):
            raise ProgExc(AttributeError(name))
        for k in type(obj).__mro__:
            d = k.__dict__.get(name, _MISSING)
            if d is not _MISSING:
                if isinstance(d, property):
                    if d.fset is None:
                        raise ProgExc(AttributeError(f"can't set attribute {name}"))
                    if SOURCES.interpretable(d.fset):
                        self.call_value(d.fset, [obj, v], {})
                        return
                break
        try:
            setattr(obj, name, v)
        except Exception as ex:
            raise ProgExc(ex)

    def barrier(self, obj, what):
        if self.frozen_ids is not None and id(obj) in self.frozen_ids:
            self.path.frame_violation(self.frozen_ids[id(obj)], what)
        if self.on_store is not None:
            self.on_store(obj, what)

    def e_Subscript(self, e, fr):
        obj = self.eval(e.value, fr)
        k = self.eval_slice(e.slice, fr)
        return self.getitem(obj, k)

    def eval_slice(self, sl, fr):
        if isinstance(sl, ast.Slice):
            return slice(self.eval(sl.lower, fr) if sl.lower else None, self.eval(sl.upper, fr) if sl.upper else None,
                         self.eval(sl.step, fr) if sl.step else None)
        if isinstance(sl, ast.Tuple):
            return tuple(self.eval_slice(x, fr) for x in sl.elts)
        return self.eval(sl, fr)

    def getitem(self, obj, k):
        if hasattr(obj, "__sym_getitem__"):
            return obj.__sym_getitem__(self, k)
        if isinstance(obj, SV):
            raise ProgExc(TypeError("number is not subscriptable"))
        if isinstance(k, SV):
            if isinstance(obj, (list, tuple)):
                # symbolic index into a concrete-length list: case split
                n = len(obj)
                for i in range(n):
                    if self.path.branch(k.t == i):
                        return obj[i]
                    if n and self.path.branch(k.t == i - n):
                        return obj[i]
                raise ProgExc(IndexError("list index out of range"))
            if isinstance(obj, dict):
                if k in obj:
                    return obj[k]
                raise Unsupported("dict lookup with a symbolic key not syntactically present")
            raise Unsupported(f"symbolic index into {type(obj).__name__}")
        mt = type(obj).__dict__.get("__getitem__") if not isinstance(obj, type) else None
        if isinstance(mt, types.FunctionType) and SOURCES.interpretable(mt):
            return self.call_function(mt, [obj, k], {})
        try:
            return obj[k]
        except NativeLeak:
            raise
        except Exception as ex:
            raise ProgExc(ex, site="subscript")

    def setitem(self, obj, k, v):
        self.barrier(obj, "item")
        if hasattr(obj, "__sym_setitem__"):
            return obj.__sym_setitem__(self, k, v)
        if isinstance(k, SV) and not isinstance(obj, dict):
            raise Unsupported("store at symbolic index")
        mt = type(obj).__dict__.get("__setitem__")
        if isinstance(mt, types.FunctionType) and SOURCES.interpretable(mt):
            return self.call_function(mt, [obj, k, v], {})
        try:
            obj[k] = v
        except NativeLeak:
            raise
        except Exception as ex:
            raise ProgExc(ex, site="subscript store")

    # comprehensions
    def e_ListComp(self, e, fr):
        out = []
        self.comp(e.generators, 0, fr, lambda f2: out.append(self.eval(e.elt, f2)))
        return out

    def e_GeneratorExp(self, e, fr):
        return self.e_ListComp(e, fr)

    def e_SetComp(self, e, fr):
        return set(self.e_ListComp(e, fr))

    def e_DictComp(self, e, fr):
        out = {}

        def add(f2):
            out[self.eval(e.key, f2)] = self.eval(e.value, f2)
        self.comp(e.generators, 0, fr, add)
        return out

    def comp(self, gens, i, fr, emit):
        if i == 0:
            fr = Frame(dict(), [fr.locals] + fr.scopes, fr.globs, fr.qualname, fr.cls_name)
        if i == len(gens):
            emit(fr)
            return
        g = gens[i]
        it = self.eval(g.iter, fr)
        for x in self.iterate(it):
            self.assign(g.target, x, fr)
            if all(self.truth(self.eval(c, fr)) for c in g.ifs):
                self.comp(gens, i + 1, fr, emit)

    def e_Starred(self, e, fr):
        raise Unsupported("starred expression")

    def e_NamedExpr(self, e, fr):
        v = self.eval(e.value, fr)
        fr.store(e.target.id, v)
        return v


# --------------------------------------------------------------------------------------------- helpers
_MISSING = object()


def _symbolic(x):
    return isinstance(x, SV) or hasattr(x, "__sym_compare__")


class _NoMerge(Exception):
    pass


def _hashable(x):
    try:
        hash(x)
        return True
    except Exception:
        return False


def _fname(f):
    return getattr(f, "__qualname__", None) or getattr(f, "__name__", None) or repr(f)


def _cell_filled(c):
    try:
        c.cell_contents
        return True
    except ValueError:
        return False


def _mro_lookup(cls, name):
    for k in cls.__mro__:
        if name in k.__dict__:
            v = k.__dict__[name]
            if isinstance(v, staticmethod):
                v = v.__func__
            return v
    return None


def _class_of_qualname(qn):
    parts = qn.split(".")
    # innermost class: the component before the function name that is not '<locals>'
    for i in range(len(parts) - 2, -1, -1):
        if parts[i] == "<locals>":
            continue
        if parts[i][:1].isupper() or parts[i].startswith("_"):
            return parts[i]
        return None
    return None


def _is_record_class(cls):
    import dataclasses, enum
    if dataclasses.is_dataclass(cls):
        return "__post_init__" not in cls.__dict__
    if issubclass(cls, tuple) and hasattr(cls, "_fields"):
        return True
    if issubclass(cls, enum.Enum):
        return True
    return False


def _infinite_sign(v):
    if isinstance(v, SV):
        return 0
    try:
        if isinstance(v, Decimal):
            return (1 if v > 0 else -1) if v.is_infinite() else 0
        f = float(v)
        if f == float("inf"):
            return 1
        if f == float("-inf"):
            return -1
    except Exception:
        pass
    return 0


def _is_nan(v):
    if isinstance(v, SV):
        return False
    try:
        return v != v
    except Exception:
        return False


def _inf_compare(op, a, b):
    """finite symbolic number compared with a concrete +-infinity (symbols are always finite reals)."""
    sa, sb = _infinite_sign(a), _infinite_sign(b)
    if sa == 0 and sb == 0:
        return None
    x, y = (0 if sa == 0 else sa * 2), (0 if sb == 0 else sb * 2)   # finite side ~ 0, infinite ~ +-2
    return _CMPOPS[type(op)](x, y)


def _int_const(t):
    t = z3.simplify(t)
    if z3.is_int_value(t):
        return t.as_long()
    return None


_TRANSPARENT_TYPES = (list, dict, tuple, set)


def _transparent(f):
    """Native callables that only move values around (no arithmetic / comparison on elements)."""
    s = getattr(f, "__self__", None)
    name = getattr(f, "__name__", "")
    if getattr(f, "__pyvc_native__", False) or (s is not None and getattr(s, "__sym_native__", False)):
        return True
    if s is not None and isinstance(s, (list, dict, tuple, set)) and name in (
            "append", "extend", "insert", "pop", "get", "items", "keys", "values", "update", "setdefault", "copy",
            "clear", "add", "__setitem__", "__getitem__", "popitem", "reverse"):
        return True
    if f in (list, tuple, dict, len, enumerate, zip, reversed, iter, next, id, type, print, repr, isinstance, hasattr, getattr, setattr):
        return True
    mod = getattr(f, "__module__", "") or ""
    if mod.startswith("logging") or (s is not None and type(s).__module__.startswith("logging")):
        return True
    import copy as _copy
    if f in (_copy.copy, _copy.deepcopy):
        return True
    return False


def _pure_expr(e) -> bool:
    """Expression without calls that may have effects: safe to evaluate on both sides of a merge."""
    for n in ast.walk(e):
        if isinstance(n, ast.Call):
            if not (isinstance(n.func, ast.Name) and n.func.id in ("int", "Decimal", "abs", "float", "min", "max", "len", "bool")):
                return False
        elif isinstance(n, (ast.Lambda, ast.ListComp, ast.GeneratorExp, ast.DictComp, ast.SetComp, ast.Await, ast.Yield,
                            ast.NamedExpr, ast.JoinedStr)):
            return False
    return True


def _simple_block(stmts) -> bool:
    for s in stmts:
        if isinstance(s, ast.Pass):
            continue
        if isinstance(s, ast.Assign):
            if not all(_name_target(t) for t in s.targets) or not _pure_expr(s.value):
                return False
        elif isinstance(s, ast.AugAssign):
            if not isinstance(s.target, ast.Name) or not _pure_expr(s.value):
                return False
        elif isinstance(s, ast.AnnAssign):
            if not isinstance(s.target, ast.Name) or (s.value is not None and not _pure_expr(s.value)):
                return False
        elif isinstance(s, ast.If):
            if not _pure_expr(s.test) or not _simple_block(s.body) or not _simple_block(s.orelse):
                return False
        else:
            return False
    return True


def _name_target(t):
    if isinstance(t, ast.Name):
        return True
    if isinstance(t, (ast.Tuple, ast.List)):
        return all(_name_target(x) for x in t.elts)
    return False


def _assigned_names(stmts):
    out = set()
    for s in stmts:
        for n in ast.walk(s):
            if isinstance(n, ast.Name) and isinstance(n.ctx, ast.Store):
                out.add(n.id)
    return out


def number_loops(func_node):
    """Attach a stable ordinal (source order) to every loop statement of a function."""
    k = 0
    for n in ast.walk(func_node):
        pass
    loops = [n for n in ast.walk(func_node) if isinstance(n, (ast.For, ast.While))]
    loops.sort(key=lambda n: (n.lineno, n.col_offset))
    for i, n in enumerate(loops):
        n._ordinal = i
    return len(loops)


# --------------------------------------------------------------------------------------------- SV attribute / method models
class SVMethod:
    def __init__(self, fn, sv):
        self.fn, self.sv = fn, sv

    def __call__(self, interp, args, kwargs):
        return self.fn(interp, self.sv, *args, **kwargs)


def _sv_sqrt(interp, sv):
    x = as_real_term(sv)
    if interp.cfg.get("sqrt_uf"):
        # relational obligations: the square root as a FUNCTION (equal arguments give the same term), plus the derived fact
        # sqrt(x) * sqrt(y) == 1 whenever x * y == 1 for the arguments met on this path (a lemma about the real square root)
        if interp.path.branch(x < 0):
            raise ProgExc(decimal.InvalidOperation("sqrt of negative"))
        f = interp.path.uf("sqrt_R", z3.RealSort(), z3.RealSort())
        r = f(x)
        interp.path.assume(z3.And(r >= 0, r * r == x), "Decimal.sqrt: exact real square root (rounding at 35 digits ignored)")
        seen = interp.path.symtab.setdefault(("sqrt_uf_seen", interp.path.path_id), [])
        for (x2, r2) in seen:
            if not x.eq(x2):
                interp.path.assume(z3.Implies(x * x2 == 1, r * r2 == 1), "lemma: sqrt(x) * sqrt(1/x) == 1 (real square root)")
        seen.append((x, r))
        return SV(r, sv.ty if sv.ty in (DEC, FLT) else DEC)
    r = interp.path.fresh_real("sqrt")
    if interp.path.branch(x < 0):
        raise ProgExc(decimal.InvalidOperation("sqrt of negative"))
    interp.path.assume(z3.And(r >= 0, r * r == x), "Decimal.sqrt: exact real square root (rounding at 35 digits ignored)")
    return SV(r, sv.ty if sv.ty in (DEC, FLT) else DEC)


def _quantize_model(interp, sv, exp, rounding=None, context=None):
    if isinstance(exp, SV):
        raise Unsupported("quantize with symbolic exponent")
    step = Fraction(Decimal(1).scaleb(Decimal(exp).as_tuple().exponent))
    x = as_real_term(sv)
    st = realval(step)
    q = x / st
    rounding = rounding or decimal.getcontext().rounding
    if rounding == decimal.ROUND_DOWN:
        n = real_trunc(q)
    elif rounding == decimal.ROUND_FLOOR:
        n = real_floor(q)
    elif rounding == decimal.ROUND_CEILING:
        n = real_ceil(q)
    elif rounding == decimal.ROUND_HALF_UP:
        n = z3.If(q >= 0, z3.ToInt(q + z3.RealVal("1/2")), -z3.ToInt(-q + z3.RealVal("1/2")))
    elif rounding == decimal.ROUND_HALF_EVEN:
        fl = z3.ToInt(q)
        diff = q - z3.ToReal(fl)
        n = z3.If(diff < z3.RealVal("1/2"), fl, z3.If(diff > z3.RealVal("1/2"), fl + 1, z3.If(fl % 2 == 0, fl, fl + 1)))
    else:
        raise Unsupported(f"quantize rounding mode {rounding}")
    return SV(z3.ToReal(n) * st, DEC)


def sv_attr(interp, sv, name):
    table = {
        "sqrt": _sv_sqrt,
        "quantize": _quantize_model,
        "is_nan": lambda i, s: False,
        "is_finite": lambda i, s: True,
        "is_infinite": lambda i, s: False,
        "is_zero": lambda i, s: SV(as_real_term(s) == 0, BOOL),
        "is_signed": lambda i, s: SV(as_real_term(s) < 0, BOOL),
        "copy_abs": lambda i, s: m_abs(i, [s], {}),
        "normalize": lambda i, s: s,
        "__abs__": lambda i, s: m_abs(i, [s], {}),
        "to_integral_value": lambda i, s, rounding=None: _quantize_model(i, s, Decimal(1), rounding),
        "to_integral": lambda i, s, rounding=None: _quantize_model(i, s, Decimal(1), rounding),
    }
    if name in table:
        return SVMethod(table[name], sv)
    if name == "real":
        return sv
    if name in ("unit", "_unit"):
        return ""
    raise Unsupported(f"attribute .{name} on a symbolic {sv.ty}")


# --------------------------------------------------------------------------------------------- models of builtins
def m_Decimal(interp, args, kwargs):
    if not args:
        return Decimal(0)
    v = args[0]
    if isinstance(v, StrOf):
        v = v.sv
    if isinstance(v, SV):
        if v.ty == DEC:
            return v
        if v.ty in (INT, BOOL):
            return SV(z3.ToReal(as_int_term(v)), DEC)
        return SV(v.t, DEC)  # Decimal(float): exact
    if isinstance(v, Fraction):
        return v          # exact rational (spec-side / idealised constants): stays exact
    try:
        return Decimal(v)
    except Exception as ex:
        raise ProgExc(ex)


def m_unitdecimal(cls):
    def m(interp, args, kwargs):
        v = args[0] if args else kwargs.get("value")
        if isinstance(v, StrOf):
            v = v.sv
        if isinstance(v, SV):
            return m_Decimal(interp, [v], {})
        try:
            return cls(*args, **kwargs)
        except Exception as ex:
            raise ProgExc(ex)
    return m


def m_int(interp, args, kwargs):
    if not args:
        return 0
    v = args[0]
    if isinstance(v, StrOf):
        v = v.sv
    if isinstance(v, SV):
        if v.ty == INT:
            return v
        if v.ty == BOOL:
            return SV(as_int_term(v), INT)
        if interp.cfg.get("ideal_floors"):
            # stated idealisation (C09 relational obligations): the truncation int(x) of a real is dropped
            interp.path.note_assumption("IDEALISED: int(x) of a real taken as x (truncation dropped)")
            return SV(v.t, DEC)
        return SV(real_trunc(v.t), INT)
    try:
        return int(*args, **kwargs)
    except NativeLeak:
        raise
    except Exception as ex:
        raise ProgExc(ex)


def m_float(interp, args, kwargs):
    if not args:
        return 0.0
    v = args[0]
    if isinstance(v, StrOf):
        v = v.sv
    if isinstance(v, SV):
        return SV(as_real_term(v), FLT)   # idealised: float(x) is exact
    try:
        return float(v)
    except Exception as ex:
        raise ProgExc(ex)


def m_bool(interp, args, kwargs):
    if not args:
        return False
    v = args[0]
    if isinstance(v, SV):
        return SV(as_bool_term(v), BOOL)
    return bool(v)


def m_str(interp, args, kwargs):
    if args and isinstance(args[0], SV):
        return StrOf(args[0])
    if args and contains_sym(args[0]):
        return "<sym>"
    try:
        return str(*args, **kwargs)
    except NativeLeak:
        return "<sym>"
    except Exception as ex:
        raise ProgExc(ex)


def m_abs(interp, args, kwargs):
    v = args[0]
    if isinstance(v, SV):
        if v.ty in (INT, BOOL):
            t = as_int_term(v)
            return SV(z3.If(t >= 0, t, -t), INT)
        return SV(z3.If(v.t >= 0, v.t, -v.t), v.ty)
    try:
        return abs(v)
    except Exception as ex:
        raise ProgExc(ex)


def _minmax(is_min):
    def m(interp, args, kwargs):
        if "key" in kwargs:
            if any(contains_sym(a) for a in args):
                raise Unsupported("min/max with key over symbols")
            return (min if is_min else max)(*args, **kwargs)
        items = list(interp.iterate(args[0])) if len(args) == 1 else list(args)
        if not items:
            if "default" in kwargs:
                return kwargs["default"]
            raise ProgExc(ValueError("min()/max() arg is an empty sequence"))
        if not any(_symbolic(x) for x in items):
            try:
                return (min if is_min else max)(items)
            except NativeLeak:
                raise
            except Exception as ex:
                raise ProgExc(ex)
        cur = items[0]
        for x in items[1:]:
            c = interp.compare(ast.Lt() if is_min else ast.Gt(), x, cur)
            if isinstance(c, SV):
                cur = mk_ite(c.t, x, cur)
            elif c:
                cur = x
        return cur
    return m


def m_sum(interp, args, kwargs):
    items = list(interp.iterate(args[0]))
    acc = args[1] if len(args) > 1 else kwargs.get("start", 0)
    for x in items:
        acc = interp.binop(ast.Add(), acc, x)
    return acc


def m_len(interp, args, kwargs):
    v = args[0]
    if hasattr(v, "__sym_len__"):
        return v.__sym_len__(interp)
    try:
        return len(v)
    except Exception as ex:
        raise ProgExc(ex)


def m_isinstance(interp, args, kwargs):
    v, t = args
    if isinstance(v, SV):
        ts = t if isinstance(t, tuple) else (t,)
        out = False
        for k in ts:
            if getattr(k, "__origin__", None) is not None:
                continue
            if not isinstance(k, type):
                if isinstance(k, types.UnionType):
                    ts2 = k.__args__
                    if any(_sv_isinstance(v, x) for x in ts2):
                        out = True
                continue
            if _sv_isinstance(v, k):
                out = True
        return out
    if isinstance(v, StrOf):
        return str in (t if isinstance(t, tuple) else (t,))
    return isinstance(v, t)


def _sv_isinstance(v, k):
    import numbers
    pt = _PY_TYPES[v.ty]
    try:
        return issubclass(pt, k)
    except TypeError:
        return False


def m_type(interp, args, kwargs):
    if len(args) == 1 and isinstance(args[0], SV):
        return _PY_TYPES[args[0].ty]
    return type(*args, **kwargs)


def m_round(interp, args, kwargs):
    v = args[0]
    nd = args[1] if len(args) > 1 else kwargs.get("ndigits")
    if isinstance(v, SV):
        if isinstance(nd, SV):
            raise Unsupported("round with symbolic ndigits")
        if v.ty in (INT, BOOL):
            return v
        step = Fraction(1, 10 ** nd) if nd else Fraction(1)
        if nd is not None and nd < 0:
            step = Fraction(10 ** (-nd))
        st = realval(step)
        q = v.t / st
        fl = z3.ToInt(q)
        diff = q - z3.ToReal(fl)
        n = z3.If(diff < z3.RealVal("1/2"), fl, z3.If(diff > z3.RealVal("1/2"), fl + 1, z3.If(fl % 2 == 0, fl, fl + 1)))
        if nd is None:
            return SV(n, INT)
        return SV(z3.ToReal(n) * st, v.ty)
    try:
        return round(*args, **kwargs)
    except Exception as ex:
        raise ProgExc(ex)


def m_math_floor(interp, args, kwargs):
    v = args[0]
    if isinstance(v, SV):
        return SV(real_floor(as_real_term(v)), INT) if v.ty not in (INT, BOOL) else v
    return math.floor(v)


def m_math_ceil(interp, args, kwargs):
    v = args[0]
    if isinstance(v, SV):
        return SV(real_ceil(as_real_term(v)), INT) if v.ty not in (INT, BOOL) else v
    return math.ceil(v)


def m_math_sqrt(interp, args, kwargs):
    v = args[0]
    if isinstance(v, SV):
        x = as_real_term(v)
        if interp.path.branch(x < 0):
            raise ProgExc(ValueError("math domain error"))
        r = interp.path.fresh_real("msqrt")
        interp.path.assume(z3.And(r >= 0, r * r == x), "math.sqrt: exact real square root")
        return SV(r, FLT)
    try:
        return math.sqrt(v)
    except Exception as ex:
        raise ProgExc(ex)


def m_math_isclose(interp, args, kwargs):
    """math.isclose(a, b, rel_tol=1e-09, abs_tol=0.0): |a - b| <= max(rel_tol * max(|a|, |b|), abs_tol)"""
    a, b = args[0], args[1]
    rel = kwargs.get("rel_tol", 1e-09)
    ab = kwargs.get("abs_tol", 0.0)
    if not any(isinstance(x, SV) for x in (a, b, rel, ab)):
        return math.isclose(a, b, rel_tol=rel, abs_tol=ab)
    A, B = as_real_term(lift(a)), as_real_term(lift(b))
    R, T = as_real_term(lift(rel)), as_real_term(lift(ab))
    absv = lambda t: z3.If(t >= 0, t, -t)
    d = absv(A - B)
    big = z3.If(absv(A) >= absv(B), absv(A), absv(B))
    return SV(z3.Or(d <= R * big, d <= T), BOOL)


def m_math_log(interp, args, kwargs):
    """math.log(x[, base]) on a symbol: an unconstrained float (binary floating point log is only an estimate;
    contracts that depend on it must survive any value).  Domain error for x <= 0 as in CPython."""
    v = args[0]
    if isinstance(v, StrOf):
        v = v.sv
    if isinstance(v, SV) or any(isinstance(a, SV) for a in args[1:]):
        if isinstance(v, SV) and interp.path.branch(as_real_term(v) <= 0):
            raise ProgExc(ValueError("math domain error"))
        return SV(interp.path.fresh_real("mathlog"), FLT)
    try:
        return math.log(*args)
    except Exception as ex:
        raise ProgExc(ex)


def m_sorted(interp, args, kwargs):
    items = list(interp.iterate(args[0]))
    if any(contains_sym(x) for x in items):
        raise Unsupported("sorted() over symbolic values")
    try:
        return sorted(items, **kwargs)
    except Exception as ex:
        raise ProgExc(ex)


def m_list(interp, args, kwargs):
    if not args:
        return []
    return list(interp.iterate(args[0]))


def m_tuple(interp, args, kwargs):
    if not args:
        return ()
    return tuple(interp.iterate(args[0]))


def m_any(interp, args, kwargs):
    terms = []
    for x in interp.iterate(args[0]):
        if isinstance(x, SV):
            terms.append(as_bool_term(x))
        elif x:
            return True
    return SV(z3.Or(*terms), BOOL) if terms else False


def m_all(interp, args, kwargs):
    terms = []
    for x in interp.iterate(args[0]):
        if isinstance(x, SV):
            terms.append(as_bool_term(x))
        elif not x:
            return False
    return SV(z3.And(*terms), BOOL) if terms else True


def m_noop(interp, args, kwargs):
    return None


def m_enumerate(interp, args, kwargs):
    start = args[1] if len(args) > 1 else kwargs.get("start", 0)
    return list(enumerate(list(interp.iterate(args[0])), start))


def m_zip(interp, args, kwargs):
    return list(zip(*[list(interp.iterate(a)) for a in args]))


def m_filter(interp, args, kwargs):
    f, it = args
    out = []
    for x in interp.iterate(it):
        r = interp.call_value(f, [x], {}) if f is not None else x
        if interp.truth(r):
            out.append(x)
    return out


def m_map(interp, args, kwargs):
    f = args[0]
    return [interp.call_value(f, list(xs), {}) for xs in zip(*[list(interp.iterate(a)) for a in args[1:]])]


def m_exact(interp, args, kwargs):
    v = args[0]
    if isinstance(v, SV):
        return m_Decimal(interp, [v], {})
    return Fraction(v)


def m_at(interp, args, kwargs):
    seq, k = args
    if hasattr(seq, "peek"):
        return seq.peek(interp, k)
    if isinstance(k, SV):
        return interp.getitem(seq, k)
    from . import api
    return api.at(seq, k)


def _install_api_models():
    from . import api
    DEFAULT_MODELS[api.exact] = m_exact
    DEFAULT_MODELS[api.at] = m_at


DEFAULT_MODELS = {
    Decimal.sqrt: (lambda interp, args, kwargs: _sv_sqrt(interp, args[0]) if isinstance(args[0], SV) else args[0].sqrt()),
    Decimal: m_Decimal, int: m_int, float: m_float, bool: m_bool, str: m_str, abs: m_abs,
    min: _minmax(True), max: _minmax(False), sum: m_sum, len: m_len, isinstance: m_isinstance, type: m_type,
    round: m_round, math.isclose: m_math_isclose, math.log: m_math_log, math.floor: m_math_floor, math.ceil: m_math_ceil, math.sqrt: m_math_sqrt, sorted: m_sorted,
    list: m_list, tuple: m_tuple, any: m_any, all: m_all, print: m_noop, enumerate: m_enumerate, zip: m_zip,
    filter: m_filter, map: m_map,
}

_install_api_models()
