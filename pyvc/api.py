"""Contract-side API: proof-obligation (PO) functions, scenarios, structural state comparison.

A PO function is ordinary Python source under /verif/contracts.  It states the precondition
(typed symbolic inputs + S.assume), calls the real repo function(s), and states the
postcondition (S.check / S.unchanged).  The same text has two evaluators:
  * symbolic: the pyvc interpreter runs the PO's AST; repo functions it calls are interpreted
    from their real AST; every S.check becomes a verification condition for z3;
  * native:   CPython runs the PO with concrete inputs (a solver model, or sampled inputs);
    the real repo functions run natively; every S.check is evaluated on real values.
"""
from __future__ import annotations
import dataclasses, decimal, enum, types, random
from decimal import Decimal
from fractions import Fraction
import z3
from .sym import SV, INT, DEC, FLT, BOOL, lift, is_number, as_bool_term, pytype_of, frac_to_decimal

REGISTRY = {}   # property id -> list[PO]


class PO:
    def __init__(self, fn, prop, name, strength, contracts, loops, covers, shapes, config, note, expect_fail):
        self.fn, self.prop, self.name, self.strength = fn, prop, name, strength
        self.contracts, self.loops, self.covers, self.shapes = contracts, loops, covers, shapes
        self.config, self.note = config, note
        self.expect_fail = expect_fail


def proof(prop, name, strength="U", contracts=None, loops=None, covers=(), shapes=None, config=None, note="",
          tiers=("quick", "thorough"), expect_fail=()):
    """Register a proof obligation.  strength: U unbounded / S shape-bounded / B bounded stand-in."""
    def deco(fn):
        po = PO(fn, prop, name, strength, contracts or {}, loops or {}, covers if callable(covers) else tuple(covers), shapes, config or {}, note, tuple(expect_fail))
        po.tiers = tiers
        REGISTRY.setdefault(prop, []).append(po)
        fn.__po__ = po
        return fn
    return deco


def native(fn):
    """Mark a sidecar helper as natively executed even in symbolic mode (world builders: they only
    construct real objects and plant symbols into fields; they never compute with symbols)."""
    fn.__pyvc_native__ = True
    return fn


class CheckFailed(Exception):
    pass


def at(seq, k):
    """Spec-side element access (no bounds fork; bounds are stated as explicit clauses)."""
    if hasattr(seq, "iloc"):
        return seq.iloc[k]
    return seq[k]


def spec(fn):
    """Mark a sidecar function as specification text: total real division (no ZeroDivisionError fork)."""
    fn.__pyvc_spec__ = True
    return fn


class Ex(Fraction):
    """exact rational that also combines with Decimal (and float) operands: the result stays exact"""

    @staticmethod
    def _c(o):
        if isinstance(o, (Decimal, float)):
            return Fraction(o)
        return o

    def _w(r):
        return Ex(r) if isinstance(r, Fraction) and not isinstance(r, Ex) else r

    def __add__(self, o): return Ex._w(Fraction.__add__(self, Ex._c(o)))
    def __radd__(self, o): return Ex._w(Fraction.__radd__(self, Ex._c(o)))
    def __sub__(self, o): return Ex._w(Fraction.__sub__(self, Ex._c(o)))
    def __rsub__(self, o): return Ex._w(Fraction.__rsub__(self, Ex._c(o)))
    def __mul__(self, o): return Ex._w(Fraction.__mul__(self, Ex._c(o)))
    def __rmul__(self, o): return Ex._w(Fraction.__rmul__(self, Ex._c(o)))
    def __truediv__(self, o): return Ex._w(Fraction.__truediv__(self, Ex._c(o)))
    def __rtruediv__(self, o): return Ex._w(Fraction.__rtruediv__(self, Ex._c(o)))
    def __neg__(self): return Ex(Fraction.__neg__(self))
    def __abs__(self): return Ex(Fraction.__abs__(self))
    def __pow__(self, o): return Ex._w(Fraction.__pow__(self, o))
    __hash__ = Fraction.__hash__


def exact(x):
    """Spec-side arithmetic is exact: natively a rational (so that evaluating a *specification* never rounds at the repo's
    35-digit Decimal context) that combines with Decimal operands; symbolically a real (model in interp)."""
    return Ex(Fraction(x))


class FnContract:
    """Callee contract: requires(*args) -> dict name->bool ; ensures(*args, result) -> dict name->bool.
    Both are sidecar Python functions (interpreted at the call site, and used verbatim by the PO that
    proves the callee).  At a call site: every requires clause becomes a `callee-pre` obligation, the
    result is a fresh symbol, every ensures clause is assumed."""

    def __init__(self, func, requires, ensures, result="int", name=None):
        self.func, self.requires, self.ensures, self.result = func, requires, ensures, result
        self.name = name or getattr(func, "__qualname__", str(func))

    def __call__(self, interp, args, kwargs):
        import inspect
        from .sym import contains_sym
        from .interp import ProgExc
        sig = inspect.signature(self.func)
        ba = sig.bind(*args, **kwargs)
        ba.apply_defaults()
        vals = list(ba.arguments.values())
        if not any(contains_sym(v) for v in vals):
            try:
                return self.func(*vals)
            except Exception as e:
                raise ProgExc(e)
        p = interp.path
        if self.requires is not None:
            pre = interp.call_value(self.requires, list(vals), {})
            for k, v in pre.items():
                p.vc(f"{self.name}/requires:{k}", v if isinstance(v, SV) else bool(v), kind="callee-pre")
        if self.result == "int":
            r = SV(p.fresh_int(f"ret_{self.name}"), INT)
        elif self.result == "Decimal":
            r = SV(p.fresh_real(f"ret_{self.name}"), DEC)
        elif self.result == "float":
            r = SV(p.fresh_real(f"ret_{self.name}"), FLT)
        elif self.result == "bool":
            r = SV(p.fresh_bool(f"ret_{self.name}"), BOOL)
        else:
            raise ValueError(self.result)
        post = interp.call_value(self.ensures, list(vals) + [r], {})
        for k, v in post.items():
            if isinstance(v, SV):
                p.assume(as_bool_term(v), f"contract {self.name}: {k} (proved by its own PO)")
            elif not v:
                from .interp import PathInfeasible
                raise PathInfeasible()
        return r


class ScenarioBase:
    __sym_native__ = True   # methods accept symbolic arguments natively

    def __init__(self, shape=None):
        self.shape = shape or {}
        self.inputs = {}       # name -> value (SV or concrete)
        self.kinds = {}        # name -> (kind, lo, hi)
        self.covered = []

    # -- numeric helpers usable from PO text in both modes
    def D(self, x):
        return Decimal(x)


class SymScenario(ScenarioBase):
    mode = "symbolic"

    def __init__(self, path, shape=None):
        super().__init__(shape)
        self.path = path

    def _mk(self, name, kind, lo, hi, lo_strict, hi_strict):
        if name in self.inputs:
            return self.inputs[name]
        if kind == INT:
            t = z3.Int(name)
        elif kind == BOOL:
            t = z3.Bool(name)
        else:
            t = z3.Real(name)
        sv = SV(t, kind)
        self.inputs[name] = sv
        self.kinds[name] = (kind, lo, hi)
        if lo is not None:
            l = lift(lo)
            lt = l.t if kind != INT else l.t
            self.path.pc.append((t > _num(lo, kind)) if lo_strict else (t >= _num(lo, kind)))
        if hi is not None:
            self.path.pc.append((t < _num(hi, kind)) if hi_strict else (t <= _num(hi, kind)))
        return sv

    def int(self, name, lo=None, hi=None):
        return self._mk(name, INT, lo, hi, False, False)

    def dec(self, name, lo=None, hi=None, lo_strict=False, hi_strict=False):
        return self._mk(name, DEC, lo, hi, lo_strict, hi_strict)

    def flt(self, name, lo=None, hi=None, lo_strict=False, hi_strict=False):
        return self._mk(name, FLT, lo, hi, lo_strict, hi_strict)

    def bool(self, name, only_if=None):
        """only_if: the flag may be True only when `only_if` holds (a dependency between inputs, e.g. collateral flag => token
        usable as collateral); natively the sampler respects it instead of rejecting the sample."""
        b = self._mk(name, BOOL, None, None, False, False)
        if only_if is not None and not (only_if is True):
            self.path.pc.append(z3.Implies(b.t, as_bool_term(only_if)))
        return b

    def seq(self, name, kind=DEC, min_len=0, max_len=None, elem_pre=None, as_series=False):
        """Sequence of symbolic (unbounded) length; natively a list (or pandas Series) of concrete values."""
        if name in self.inputs:
            return self.inputs[name]
        from .seq import SymSeq
        n = self.int(f"{name}!len", min_len, max_len)
        del self.inputs[f"{name}!len"]
        sq = SymSeq(self.path, name, kind, n, elem_pre)
        self.inputs[name] = sq
        self.kinds[name] = ("seq", kind, as_series)
        return sq

    def seq_scaled(self, name, base, c):
        """Elementwise c * base as a sequence of the same length (for relational spec lemmas)."""
        from .seq import ScaledSeq
        return ScaledSeq(name, base, c)

    def assume(self, cond, why=""):
        if isinstance(cond, SV):
            self.path.assume(as_bool_term(cond), "")
        elif not cond:
            from .interp import PathInfeasible
            raise PathInfeasible()

    def check(self, name, cond, kind="post"):
        self.path.vc(name, cond if isinstance(cond, SV) else bool(cond), kind=kind)

    def lemma(self, name, cond):
        """cut: prove `cond` here as its own obligation, then use it as a hypothesis for what follows"""
        self.check(name, cond, kind="lemma")
        if isinstance(cond, SV):
            self.path.assume(as_bool_term(cond), "")

    def cover(self, label):
        self.path.cover.add(label)

    def check_all(self, prefix, clauses, kind="post"):
        for k, v in clauses.items():
            self.check(f"{prefix}{k}", v, kind)

    def assume_all(self, clauses):
        for k, v in clauses.items():
            self.assume(v, k)

    def le(self, a, b):
        return _cmp(a, b, "le")

    def eq(self, a, b):
        return _cmp(a, b, "eq")

    def close(self, a, b, rel="1e-12", abs_=0):
        """relational clauses (C09): proved as exact equality over the (idealised) reals; natively |a-b| <= rel*max(|a|,|b|) + abs_"""
        return _cmp(a, b, "eq")

    def native_assume(self, cond, why=""):
        """restricts only the native sampling domain (e.g. to non-dust magnitudes where a relative tolerance is meaningful);
        the symbolic obligation is NOT restricted by it"""
        return None

    def unchanged(self, name, before, after):
        diffs = list(diff_state(before, after))
        for where, a, b in diffs:
            if a is _ABSENT or b is _ABSENT or not (isinstance(a, SV) or isinstance(b, SV)):
                self.path.vc(f"{name}:{where}", False if (a is _ABSENT or b is _ABSENT) else _concrete_eq(a, b), kind="frame")
            else:
                self.path.vc(f"{name}:{where}", _cmp(a, b, "eq"), kind="frame")
        if not diffs:
            self.path.vc(f"{name}:identical", True, kind="frame")

    def note(self, msg):
        self.path.notes.append(msg)


def _num(v, kind):
    if isinstance(v, SV):
        return v.t
    if kind == INT:
        return z3.IntVal(int(v))
    from .sym import realval, frac_of
    return realval(frac_of(v) if not isinstance(v, Fraction) else v)


def _cmp(a, b, op):
    if isinstance(a, SV) or isinstance(b, SV):
        A, B = lift(a), lift(b)
        if A.ty == BOOL and B.ty == BOOL:
            return SV(A.t == B.t, BOOL)
        from .sym import as_int_term, as_real_term
        if A.ty in (INT, BOOL) and B.ty in (INT, BOOL):
            x, y = as_int_term(A), as_int_term(B)
        else:
            x, y = as_real_term(A), as_real_term(B)
        return SV(x <= y if op == "le" else x == y, BOOL)
    return (a <= b) if op == "le" else (a == b)


def _concrete_eq(a, b):
    try:
        r = a == b
        return bool(r)
    except Exception:
        return a is b


# tolerances for native evaluation of magnitudes (DESIGN §7)
DEC_SLACK = Decimal("1e-30")
FLT_SLACK = 1e-9


class ConcreteScenario(ScenarioBase):
    """Native evaluation with concrete inputs: replay of a counter-model, or sampled inputs."""
    mode = "native"

    def __init__(self, values=None, shape=None, rng=None, strict=False):
        super().__init__(shape)
        self.values = values or {}
        self.rng = rng
        self.results = []     # (name, bool, detail)
        self.rejected = False  # an assumption failed: input outside the precondition
        self.strict = strict

    def _get(self, name, kind, lo, hi, lo_strict=False, hi_strict=False):
        if name in self.inputs:
            return self.inputs[name]
        if name in self.values:
            v = self.values[name]
            v = _coerce(v, kind)
        elif self.rng is not None:
            v = _sample(self.rng, kind, lo, hi, lo_strict, hi_strict)
        else:
            v = _coerce(lo if lo is not None else (hi if hi is not None else 0), kind)
            if lo is not None and lo_strict:
                v = v + 1
        ok = True
        if lo is not None:
            ok = ok and (v > lo if lo_strict else v >= lo)
        if hi is not None:
            ok = ok and (v < hi if hi_strict else v <= hi)
        if not ok:
            self.rejected = True
        self.inputs[name] = v
        self.kinds[name] = (kind, lo, hi)
        return v

    def int(self, name, lo=None, hi=None):
        return self._get(name, INT, lo, hi)

    def dec(self, name, lo=None, hi=None, lo_strict=False, hi_strict=False):
        return self._get(name, DEC, lo, hi, lo_strict, hi_strict)

    def flt(self, name, lo=None, hi=None, lo_strict=False, hi_strict=False):
        return self._get(name, FLT, lo, hi, lo_strict, hi_strict)

    def bool(self, name, only_if=None):
        fresh = name not in self.inputs
        v = self._get(name, BOOL, None, None)
        if only_if is not None and not only_if and v:
            if fresh and name not in self.values:
                v = False
                self.inputs[name] = v
            else:
                self.rejected = True
        return v

    def seq(self, name, kind=DEC, min_len=0, max_len=None, elem_pre=None, as_series=False):
        if name in self.inputs:
            return self.inputs[name]
        if name in self.values:
            vals = [_coerce(x, kind) for x in self.values[name]]
        elif self.rng is not None:
            hi = max_len if max_len is not None else min_len + 10
            n = self.rng.randint(min_len, hi)
            base = _sample(self.rng, kind, 1, 10 ** 6, False, False)
            vals = []
            for _ in range(n):
                r = self.rng.random()
                if r < 0.15 and vals:
                    vals.append(vals[-1])
                else:
                    f = Fraction(self.rng.randint(2, 300), 100)
                    vals.append(_coerce(Fraction(base) * f, kind) if kind != INT else int(Fraction(base) * f) + 1)
        else:
            vals = [_coerce(1, kind)] * min_len
        if len(vals) < min_len or (max_len is not None and len(vals) > max_len):
            self.rejected = True
        if as_series:
            import pandas as pd
            v = pd.Series(vals, dtype=object if kind == DEC else None)
        else:
            v = list(vals)
        if elem_pre is not None:
            for i in range(len(vals)):
                try:
                    c = elem_pre(v, i)
                except IndexError:          # the element precondition mentions a neighbour beyond the end: nothing to require there
                    continue
                ok = all(c.values()) if isinstance(c, dict) else bool(c)
                if not ok:
                    self.rejected = True
        self.inputs[name] = v
        self.kinds[name] = ("seq", kind, as_series)
        return v

    def seq_scaled(self, name, base, c):
        import pandas as pd
        if isinstance(base, pd.Series):
            return pd.Series([c * x for x in base])
        return [c * x for x in base]

    def assume(self, cond, why=""):
        if not cond:
            self.rejected = True
            raise AssumptionFailed(why)

    def check(self, name, cond, kind="post"):
        self.results.append((name, bool(cond), ""))

    def lemma(self, name, cond):
        self.check(name, cond, kind="lemma")

    def cover(self, label):
        self.covered.append(label)

    def check_all(self, prefix, clauses, kind="post"):
        for k, v in clauses.items():
            self.check(f"{prefix}{k}", v, kind)

    def assume_all(self, clauses):
        for k, v in clauses.items():
            self.assume(v, k)

    def le(self, a, b):
        if self.strict:
            return a <= b
        return Fraction(a) <= Fraction(b) + _slack(a, b)

    def eq(self, a, b):
        if self.strict:
            return a == b
        if isinstance(a, bool) or isinstance(b, bool) or not (_isnum(a) and _isnum(b)):
            return a == b
        return abs(Fraction(a) - Fraction(b)) <= _slack(a, b)

    def close(self, a, b, rel="1e-12", abs_=0):
        if isinstance(a, bool) or isinstance(b, bool) or not (_isnum(a) and _isnum(b)):
            return a == b
        A, B = Fraction(a), Fraction(b)
        return abs(A - B) <= Fraction(rel) * max(abs(A), abs(B)) + Fraction(abs_)

    def native_assume(self, cond, why=""):
        if not cond:
            self.rejected = True
            raise AssumptionFailed(why)

    def unchanged(self, name, before, after):
        diffs = list(diff_state(before, after))
        for where, a, b in diffs:
            ok = (a is not _ABSENT and b is not _ABSENT) and _concrete_eq(a, b)
            self.results.append((f"{name}:{where}", ok, f"{a!r} -> {b!r}"))
        if not diffs:
            self.results.append((f"{name}:identical", True, ""))

    def note(self, msg):
        pass


class AssumptionFailed(Exception):
    pass


def _isnum(x):
    return isinstance(x, Fraction) or is_number(x)


def _slack(a, b):
    if isinstance(a, float) or isinstance(b, float):
        return Fraction(FLT_SLACK) * max(abs(Fraction(a)), abs(Fraction(b)))
    if isinstance(a, (Decimal, Fraction)) or isinstance(b, (Decimal, Fraction)):
        return Fraction(DEC_SLACK) * max(abs(Fraction(a)), abs(Fraction(b)))
    return 0


def _coerce(v, kind):
    if kind == BOOL:
        return bool(v) if not isinstance(v, str) else v == "True"
    if kind == INT:
        return int(v) if not isinstance(v, str) else int(Fraction(v))
    if isinstance(v, str):
        fr = Fraction(v)
        return frac_to_decimal(fr) if kind == DEC else float(fr)
    if kind == DEC:
        return v if isinstance(v, Decimal) else (frac_to_decimal(v) if isinstance(v, Fraction) else Decimal(v))
    return float(v)


def _sample(rng, kind, lo, hi, lo_strict, hi_strict):
    if kind == BOOL:
        return rng.random() < 0.5
    if kind == INT:
        a = int(lo) if lo is not None else -10 ** 6
        b = int(hi) if hi is not None else 10 ** 6
        r = rng.random()
        if r < 0.1:
            return a
        if r < 0.2:
            return b
        if b - a > 10 ** 9 and rng.random() < 0.5:   # log-uniform over wide ranges
            import math
            la, lb = math.log(max(a, 1)), math.log(max(b, 2))
            return min(b, max(a, int(math.exp(rng.uniform(la, lb)))))
        return rng.randint(a, b)
    a = Fraction(lo) if lo is not None else Fraction(-10 ** 6)
    b = Fraction(hi) if hi is not None else (a + 10 ** 9 if lo is not None else Fraction(10 ** 6))
    r = rng.random()
    if r < 0.07 and not lo_strict:
        x = a
    elif r < 0.12 and not hi_strict and hi is not None:
        x = b
    else:
        import math
        if a >= 0 and b / max(a, Fraction(1, 10 ** 9)) > 1000:   # log-uniform
            la = math.log10(float(max(a, Fraction(1, 10 ** 9)))); lb = math.log10(float(b))
            x = Fraction(str(round(10 ** rng.uniform(la, lb), rng.choice([0, 2, 6, 12]))))
            x = min(max(x, a), b)
        else:
            x = a + (b - a) * Fraction(rng.randint(0, 10 ** 9), 10 ** 9)
        if (lo_strict and x == a) or (hi_strict and x == b):
            x = (a + b) / 2
    return frac_to_decimal(x, 40) if kind == DEC else float(x)


# ------------------------------------------------------------------------------- structural state dump / diff
_ABSENT = object()
_SKIP_TYPES = (types.FunctionType, types.MethodType, types.BuiltinFunctionType, types.ModuleType, type)


def dump_state(obj, skip=(), _depth=0, _seen=None, follow=()):
    """Canonical nested structure of the state reachable from obj (leaves: numbers, symbols, strings...).
    skip: attribute names not followed (back-references, loggers, input frames)."""
    import pandas as pd, logging
    if _seen is None:
        _seen = {}
    if isinstance(obj, SV) or obj is None or isinstance(obj, (bool, int, float, Decimal, str, bytes, enum.Enum)):
        return obj
    if _depth > 12:
        return "<deep>"
    if isinstance(obj, (pd.Timestamp, pd.Timedelta)):
        return str(obj)
    import datetime
    if isinstance(obj, (datetime.datetime, datetime.date, datetime.timedelta)):
        return str(obj)
    if isinstance(obj, _SKIP_TYPES) or isinstance(obj, logging.Logger) or callable(obj) and not hasattr(obj, "__dict__"):
        return "<callable>"
    oid = id(obj)
    if oid in _seen:
        return f"<ref {_seen[oid]}>"
    _seen[oid] = len(_seen)
    if isinstance(obj, dict):
        return {"__dict__": {_key(k): dump_state(v, skip, _depth + 1, _seen) for k, v in obj.items()}}
    if isinstance(obj, (list, tuple)) and not hasattr(obj, "_fields"):
        return [dump_state(v, skip, _depth + 1, _seen) for v in obj]
    if isinstance(obj, (set, frozenset)):
        return {"__set__": sorted(_key(k) for k in obj)}
    if isinstance(obj, pd.Series):
        return {"__series__": {_key(k): dump_state(v, skip, _depth + 1, _seen) for k, v in obj.items()}}
    if isinstance(obj, pd.DataFrame):
        return {"__frame__": {(_key(i), _key(c)): dump_state(obj.at[i, c], skip, _depth + 1, _seen) for i in obj.index for c in obj.columns}}
    if hasattr(obj, "_fields") and isinstance(obj, tuple):
        return {f: dump_state(getattr(obj, f), skip, _depth + 1, _seen) for f in obj._fields}
    d = getattr(obj, "__dict__", None)
    if d is not None:
        return {"__class__": type(obj).__name__,
                **{k: dump_state(v, skip, _depth + 1, _seen) for k, v in d.items() if k not in skip and not callable(v)}}
    if hasattr(obj, "__slots__"):
        return {"__class__": type(obj).__name__, **{k: dump_state(getattr(obj, k), skip, _depth + 1, _seen) for k in obj.__slots__ if hasattr(obj, k)}}
    return repr(obj)


def _key(k):
    if isinstance(k, SV):
        return str(k.t)
    if isinstance(k, tuple):
        return "(" + ",".join(_key(x) for x in k) + ")"
    return str(k)


def diff_state(a, b, where=""):
    """Yield (path, leaf_a, leaf_b) for every leaf position; positions missing on one side give _ABSENT.
    Only positions whose leaves are not trivially identical are yielded."""
    if isinstance(a, dict) and isinstance(b, dict):
        for k in list(a.keys()) + [k for k in b.keys() if k not in a]:
            if k not in a:
                yield (f"{where}/{k}", _ABSENT, _short(b[k]))
            elif k not in b:
                yield (f"{where}/{k}", _short(a[k]), _ABSENT)
            else:
                yield from diff_state(a[k], b[k], f"{where}/{k}")
        return
    if isinstance(a, list) and isinstance(b, list):
        if len(a) != len(b):
            yield (f"{where}/len", len(a), len(b))
            return
        for i, (x, y) in enumerate(zip(a, b)):
            yield from diff_state(x, y, f"{where}[{i}]")
        return
    if isinstance(a, (dict, list)) or isinstance(b, (dict, list)):
        yield (where, _short(a), _short(b))
        return
    if isinstance(a, SV) and isinstance(b, SV) and a.t.eq(b.t):
        return
    if not isinstance(a, SV) and not isinstance(b, SV):
        if type(a) is type(b) and _concrete_eq(a, b):
            return
        if is_number(a) and is_number(b) and not isinstance(a, bool) and not isinstance(b, bool) and a == b:
            return
    yield (where, a, b)


def _short(x):
    if isinstance(x, (dict, list)):
        return "<struct>"
    return x


# ------------------------------------------------------------------------------- callee contracts with effects
class Havoc:
    """Handed to the body of an EffectContract: fresh (havocked) values, callee preconditions, assumed postconditions."""
    __sym_native__ = True

    def __init__(self, interp, cname):
        self.interp, self.cname = interp, cname

    def dec(self, base):
        return SV(self.interp.path.fresh_real(f"{self.cname}!{base}"), DEC)

    def int(self, base):
        return SV(self.interp.path.fresh_int(f"{self.cname}!{base}"), INT)

    def bool(self, base):
        return SV(self.interp.path.fresh_bool(f"{self.cname}!{base}"), BOOL)

    def le(self, a, b):
        return _cmp(a, b, "le")

    def eq(self, a, b):
        return _cmp(a, b, "eq")

    def require(self, name, cond):
        """callee precondition: an obligation of the CALLER at this call site"""
        from .interp import PathEnd
        p = self.interp.path
        p.vc(f"{self.cname}/requires:{name}", cond if isinstance(cond, SV) else bool(cond), kind="callee-pre")
        if not isinstance(cond, SV) and not cond:
            raise PathEnd()
        if isinstance(cond, SV):
            p.assume(as_bool_term(cond), "")

    def assume_all(self, clauses):
        from .interp import PathInfeasible
        for k, v in clauses.items():
            if isinstance(v, SV):
                self.interp.path.assume(as_bool_term(v), f"contract {self.cname}: {k} (proved by its own PO)")
            elif not v:
                raise PathInfeasible()


class EffectContract:
    """Callee contract of a state-changing method: `body(hv, self, *args)` is sidecar text (interpreted) that states the
    precondition (hv.require), havocs what the callee may modify (fresh symbols from hv), assumes the callee's proved
    postcondition (hv.assume_all over the SAME clause function its own PO checks) and applies the frame: everything it does
    not touch is unchanged.  Used by callers instead of the callee's body (modular verification)."""

    def __init__(self, name, body):
        self.name, self.body = name, body

    def __call__(self, interp, args, kwargs):
        hv = Havoc(interp, self.name)
        return interp.call_value(self.body, [hv] + list(args), dict(kwargs))
