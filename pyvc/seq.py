"""Symbolic-length sequences, ranges, loop invariants (unbounded iteration) and recursive spec functions."""
from __future__ import annotations
import ast
import z3
from .sym import SV, INT, DEC, FLT, BOOL, Unsupported, lift, as_int_term, as_real_term, as_bool_term, is_number
from .interp import ProgExc, PathEnd, _Break, _Continue, _assigned_names, DEFAULT_MODELS, PathInfeasible

_SORT = {INT: z3.IntSort(), DEC: z3.RealSort(), FLT: z3.RealSort(), BOOL: z3.BoolSort()}


class SymSeq:
    """list/tuple of symbolic length whose elements are `elem(i)` of an uninterpreted function.
    elem_pre(seq, i) (optional sidecar function) is assumed for every index that is read."""
    __sym_native__ = True

    def __init__(self, path, name, kind, length, elem_pre=None, interp=None):
        self.path, self.name, self.kind = path, name, kind
        self.length = length if isinstance(length, SV) else SV(z3.IntVal(int(length)), INT)
        self.f = z3.Function(f"{name}!elem", z3.IntSort(), _SORT[kind])
        self.elem_pre = elem_pre
        self._assumed = set()

    def __sym_len__(self, interp):
        return self.length

    def at(self, interp, i_term):
        """Element at a (valid) index term, with its per-element precondition assumed."""
        v = SV(self.f(i_term), self.kind)
        key = i_term.hash()
        if self.elem_pre is not None and key not in self._assumed and not getattr(self, "_in_pre", False):
            self._assumed.add(key)
            self._in_pre = True     # indices mentioned inside the element precondition are not instantiated further
            try:
                c = interp.call_value(self.elem_pre, [self, SV(i_term, INT)], {})
            finally:
                self._in_pre = False
            if isinstance(c, dict):
                for k, x in c.items():
                    if isinstance(x, SV):
                        interp.path.assume(as_bool_term(x), f"element precondition of {self.name}: {k}")
            elif isinstance(c, SV):
                interp.path.assume(as_bool_term(c), f"element precondition of {self.name}")
        return v

    def peek(self, interp, k):
        """Element without bounds check (for use in element preconditions / specs)."""
        kt = k.t if isinstance(k, SV) else z3.IntVal(int(k))
        return self.at(interp, kt)

    def __sym_getitem__(self, interp, k):
        if isinstance(k, slice):
            raise Unsupported("slice of a symbolic-length sequence")
        kt = as_int_term(lift(k))
        n = self.length.t
        if interp.path.branch(z3.Or(kt >= n, kt < -n)):
            raise ProgExc(IndexError("list index out of range"), site=f"{self.name}[...]")
        idx = z3.simplify(z3.If(kt < 0, kt + n, kt))
        return self.at(interp, idx)

    # list-like natives used by repo code on the value
    def to_list(self):
        return self

    @property
    def iloc(self):
        return self


class ScaledSeq(SymSeq):
    def __init__(self, name, base, c):
        self.base, self.c, self.name, self.kind = base, c, name, base.kind
        self.length = base.length
        self.path = base.path
        self.elem_pre = None

    def at(self, interp, i_term):
        import ast as _ast
        return interp.binop(_ast.Mult(), self.c, self.base.at(interp, i_term))


class SymRange:
    __sym_native__ = True

    def __init__(self, start, stop):
        self.start, self.stop = start, stop

    def __sym_len__(self, interp):
        a, b = as_int_term(lift(self.start)), as_int_term(lift(self.stop))
        return SV(z3.If(b > a, b - a, z3.IntVal(0)), INT)


def m_range(interp, args, kwargs):
    if any(isinstance(a, SV) for a in args):
        if len(args) == 1:
            return SymRange(0, args[0])
        if len(args) == 2:
            return SymRange(args[0], args[1])
        raise Unsupported("range with symbolic step")
    try:
        return range(*args)
    except Exception as e:
        raise ProgExc(e)


DEFAULT_MODELS[range] = m_range


class LoopSpec:
    """Inductive invariant for one loop (keyed by (function qualname, loop ordinal)).

    inv(env, i) -> dict name -> bool : sidecar function over a dict of the function's locals and the index of
    the next iteration (for a `for` loop over a range/sequence) — must talk about the abstraction, never about
    incidental temporaries.  peel = number of leading iterations executed concretely before the invariant is
    established (e.g. to get past a -inf sentinel)."""

    def __init__(self, inv, peel=0, havoc_extra=(), name="loop", variant=None):
        self.inv, self.peel, self.havoc_extra, self.name = inv, peel, tuple(havoc_extra), name
        self.variant = variant      # variant(env) -> int term: >= 0 whenever the loop test holds, strictly decreasing (termination)

    # -- for i in range(a, b)  /  for x in SymSeq
    def run_for(self, interp, s, fr, it):
        p = interp.path
        if isinstance(it, SymRange):
            a, b = as_int_term(lift(it.start)), as_int_term(lift(it.stop))
            elem = lambda idx: SV(idx, INT)
        elif isinstance(it, SymSeq):
            a, b = z3.IntVal(0), it.length.t
            elem = lambda idx: it.at(interp, idx)
        elif isinstance(it, range) and it.step == 1:
            a, b = z3.IntVal(it.start), z3.IntVal(it.stop)
            elem = lambda idx: SV(idx, INT)
        else:
            raise Unsupported(f"loop invariant on iteration over {type(it).__name__}")
        # peeled iterations
        for j in range(self.peel):
            idx = z3.simplify(a + j)
            if not p.branch(idx < b):
                interp.exec_block(s.orelse, fr)
                return
            interp.assign(s.target, elem(idx), fr)
            try:
                interp.exec_block(s.body, fr)
            except _Break:
                return
            except _Continue:
                pass
        start = z3.simplify(a + self.peel)
        self._check(interp, fr, SV(start, INT), "established", extra=[start <= z3.If(b > start, b, start)])
        names = sorted((_assigned_names(s.body) | set(self.havoc_extra)) - _target_names(s.target))
        d = p.choose(2, self.name)
        self._havoc(interp, fr, names)
        if d == 0:
            i = p.fresh_int(f"{self.name}!i")
            p.assume(z3.And(i >= start, i < b), "")
            self._assume(interp, fr, SV(i, INT))
            interp.assign(s.target, elem(i), fr)
            try:
                interp.exec_block(s.body, fr)
            except _Break:
                return   # loop left by break: continue after the loop with this state
            except _Continue:
                pass
            self._check(interp, fr, SV(z3.simplify(i + 1), INT), "preserved")
            raise PathEnd()
        # exhaustion
        end = z3.If(b > start, b, start)
        self._assume(interp, fr, SV(end, INT))
        if isinstance(s.target, ast.Name) and s.target.id in fr.locals:
            last = p.fresh_int(f"{self.name}!last")
            fr.locals[s.target.id] = SV(last, INT) if not isinstance(it, SymSeq) else elem(last)
        interp.exec_block(s.orelse, fr)

    # -- while cond
    def run_while(self, interp, s, fr):
        p = interp.path
        for j in range(self.peel):
            c = interp.eval(s.test, fr)
            if not interp.truth(c):
                interp.exec_block(s.orelse, fr)
                return
            try:
                interp.exec_block(s.body, fr)
            except _Break:
                return
            except _Continue:
                pass
        self._check(interp, fr, None, "established")
        names = sorted(_assigned_names(s.body) | set(self.havoc_extra))
        d = p.choose(2, self.name)
        self._havoc(interp, fr, names)
        self._assume(interp, fr, None)
        c = interp.eval(s.test, fr)
        if d == 0:
            if not interp.truth(c):
                raise PathInfeasible()
            v0 = self._variant(interp, fr)
            try:
                interp.exec_block(s.body, fr)
            except _Break:
                return
            except _Continue:
                pass
            self._check(interp, fr, None, "preserved")
            if v0 is not None:
                v1 = self._variant(interp, fr)
                a, b = as_int_term(lift(v0)), as_int_term(lift(v1))
                p.vc(f"{self.name}/variant-nonnegative", a >= 0, kind="termination")
                p.vc(f"{self.name}/variant-decreases", b < a, kind="termination")
            raise PathEnd()
        if interp.truth(c):
            raise PathInfeasible()
        interp.exec_block(s.orelse, fr)

    def _env(self, fr):
        return dict(fr.locals)

    def _variant(self, interp, fr):
        if self.variant is None:
            return None
        interp.spec_depth += 1
        try:
            return interp.call_value(self.variant, [self._env(fr)], {})
        finally:
            interp.spec_depth -= 1

    def _call_inv(self, interp, fr, i):
        args = [self._env(fr)] + ([i] if i is not None else [])
        interp.spec_depth += 1
        try:
            return interp.call_value(self.inv, args, {})
        finally:
            interp.spec_depth -= 1

    def _check(self, interp, fr, i, phase, extra=()):
        res = self._call_inv(interp, fr, i)
        for k, v in res.items():
            interp.path.vc(f"{self.name}/invariant-{phase}:{k}", v if isinstance(v, SV) else bool(v), kind="invariant")

    def _assume(self, interp, fr, i):
        res = self._call_inv(interp, fr, i)
        for k, v in res.items():
            if isinstance(v, SV):
                interp.path.assume(as_bool_term(v), "")
            elif not v:
                raise PathInfeasible()

    def _havoc(self, interp, fr, names):
        for n in names:
            if n in fr.locals and n != "__loopctr__":
                cur = fr.locals[n]
                if isinstance(cur, SV) or is_number(cur):
                    if isinstance(cur, float) and cur in (float("inf"), float("-inf")):
                        raise Unsupported(f"havoc of infinite sentinel {n}: peel the first iteration")
                    fr.locals[n] = interp.path.fresh_like(cur, f"{self.name}!{n}")
                elif hasattr(cur, "__havoc__"):
                    fr.locals[n] = cur.__havoc__(interp, f"{self.name}!{n}")
                else:
                    raise Unsupported(f"cannot havoc loop-modified variable {n} of type {type(cur).__name__}")


def _target_names(t):
    return {n.id for n in ast.walk(t) if isinstance(n, ast.Name)}


class RecSpec:
    """Recursive spec function over a sequence prefix: F(seq, 0) = base(seq); F(seq, j) = step(seq, F(seq, j-1), j).
    Native: iterative evaluation.  Symbolic: uninterpreted F with the unfolding instantiated at every index that
    is mentioned (that is exactly what an inductive step needs; nothing is left to quantifier instantiation)."""
    __sym_native__ = True

    def __init__(self, name, base, step, kind=DEC):
        self.name, self.base, self.step, self.kind = name, base, step, kind
        self.__pyvc_spec__ = True

    def __call__(self, seq, j):
        acc = self.base(seq)
        for k in range(1, j + 1):
            acc = self.step(seq, acc, k)
        return acc

    def sym_call(self, interp, args, kwargs):
        seq, j = args
        if not isinstance(j, SV) and not isinstance(seq, SymSeq):
            return self(seq, j)
        interp.spec_depth += 1
        try:
            return self._sym_call(interp, seq, j)
        finally:
            interp.spec_depth -= 1

    def _sym_call(self, interp, seq, j):
        p = interp.path
        sid = seq.name if isinstance(seq, SymSeq) else f"obj{id(seq)}"
        f = p.uf(f"{self.name}!{sid}", z3.IntSort(), _SORT[self.kind])
        jt = as_int_term(lift(j))
        done = p.symtab.setdefault(("recspec", p.path_id, self.name, sid), set())
        for idx in (jt,):
            key = z3.simplify(idx).hash()
            if key in done:
                continue
            done.add(key)
            b = interp.call_value(self.base, [seq], {})
            prev = SV(f(idx - 1), self.kind)
            st = interp.call_value(self.step, [seq, prev, SV(idx, INT)], {})
            bt = as_real_term(lift(b)) if self.kind in (DEC, FLT) else as_int_term(lift(b))
            stt = as_real_term(lift(st)) if self.kind in (DEC, FLT) else as_int_term(lift(st))
            p.assume(f(z3.IntVal(0)) == bt, f"definition of spec function {self.name} (unfolded at a mentioned index)")
            p.assume(z3.Implies(idx >= 1, f(idx) == stt), "")
        return SV(f(jt), self.kind)


def install_recspec_dispatch():
    """RecSpec instances are called through Interp.call_value -> native_call; route them to sym_call."""
    from . import interp as _i
    orig = _i.Interp.call_value

    def call_value(self, f, args, kwargs):
        if isinstance(f, RecSpec):
            return f.sym_call(self, args, kwargs)
        return orig(self, f, args, kwargs)
    _i.Interp.call_value = call_value


install_recspec_dispatch()
