"""Path exploration by re-execution, verification conditions, solver access."""
from __future__ import annotations
import time, os, json
import z3
from .sym import SV, INT, DEC, FLT, BOOL, Unsupported, NativeLeak, MergeAbort
from .interp import PathInfeasible, PathEnd, ProgExc, Interp

FEAS_RLIMIT = int(os.environ.get("PYVC_FEAS_RLIMIT", 3_000_000))
VC_RLIMIT = int(os.environ.get("PYVC_VC_RLIMIT", 60_000_000))
FEAS_TIMEOUT_MS = 20_000
VC_TIMEOUT_MS = 120_000
VC_BUDGET_S = float(os.environ.get("PYVC_VC_BUDGET_S", 150))


class Stats:
    def __init__(self):
        self.solver_s = 0.0
        self.feas_calls = 0
        self.vc_calls = 0
        self.unknown_feas = 0
        self.model_hits = 0
        self.unknown_vcs = 0
        self.cross = {"checked": 0, "agree": 0, "disagree": 0, "unknown": 0, "error": 0, "seconds": 0.0}


STATS = Stats()


def check(assertions, rlimit, timeout_ms):
    import threading
    s = z3.Solver()
    s.set("rlimit", rlimit)
    s.set("timeout", timeout_ms)
    for a in assertions:
        s.add(a)
    t0 = time.time()
    wd = threading.Timer(timeout_ms / 1000.0 + 5, z3.main_ctx().interrupt)     # see _solve: the solver's own timeout is not always honoured
    wd.daemon = True
    wd.start()
    try:
        try:
            r = s.check()
        except z3.Z3Exception:
            r = z3.unknown
    finally:
        wd.cancel()
    STATS.solver_s += time.time() - t0
    return r, s


_NL_CACHE = {}


def _nonlinear(t):
    """does the term contain a product / quotient of two non-numeral terms (or a power)?"""
    i = t.get_id()
    r = _NL_CACHE.get(i)
    if r is not None:
        return r[0]
    k = t.decl().kind() if z3.is_app(t) else None
    res = False
    if k in (z3.Z3_OP_MUL,):
        res = sum(0 if (z3.is_rational_value(c) or z3.is_int_value(c)) else 1 for c in t.children()) >= 2
    elif k in (z3.Z3_OP_DIV, z3.Z3_OP_IDIV, z3.Z3_OP_MOD, z3.Z3_OP_REM):
        d = t.arg(1)
        res = not (z3.is_rational_value(d) or z3.is_int_value(d))
    elif k == z3.Z3_OP_POWER:
        res = True
    if not res:
        res = any(_nonlinear(c) for c in t.children())
    _NL_CACHE[i] = (res, t)
    return res


class VC:
    __slots__ = ("name", "pc", "goal", "kind", "site", "verdict", "model", "seconds", "path_id", "reason")

    def __init__(self, name, pc, goal, kind, site, path_id):
        self.name, self.pc, self.goal, self.kind, self.site, self.path_id = name, pc, goal, kind, site, path_id
        self.verdict = None
        self.model = None
        self.seconds = 0.0
        self.reason = ""


class Path:
    def __init__(self, prefix, symtab, path_id):
        self.prefix = list(prefix)
        self.trace = []
        self.pc = []
        self.assumes = []       # stack of temporary guards during merges
        self.alts = []
        self.vcs = []
        self.symtab = symtab    # shared registry: name -> SV (stable across re-executions)
        self.path_id = path_id
        self.notes = []
        self.ufs = {}
        self.fresh_ctr = {}
        self.assumption_log = symtab.setdefault("__assumptions__", {})
        self.frame_violations = []
        self.cover = set()
        self._model = None
        self._model_ok = {}

    # -- symbols: deterministic names so that re-execution recreates identical terms
    def fresh_real(self, base):
        n = self.fresh_ctr.get(base, 0)
        self.fresh_ctr[base] = n + 1
        return z3.Real(f"{base}!{n}")

    def fresh_int(self, base):
        n = self.fresh_ctr.get(base, 0)
        self.fresh_ctr[base] = n + 1
        return z3.Int(f"{base}!{n}")

    def fresh_bool(self, base):
        n = self.fresh_ctr.get(base, 0)
        self.fresh_ctr[base] = n + 1
        return z3.Bool(f"{base}!{n}")

    def fresh_like(self, v, base):
        if isinstance(v, SV):
            ty = v.ty
        else:
            from .sym import pytype_of
            ty = pytype_of(v)
        if ty == BOOL:
            return SV(self.fresh_bool(base), BOOL)
        if ty == INT:
            return SV(self.fresh_int(base), INT)
        if ty in (DEC, FLT):
            return SV(self.fresh_real(base), ty)
        raise Unsupported(f"cannot havoc a value of type {type(v).__name__} ({base})")

    def uf(self, name, *sorts):
        if name not in self.ufs:
            self.ufs[name] = z3.Function(name, *sorts)
        return self.ufs[name]

    # -- assumptions
    def all_pc(self):
        return self.pc + self.assumes

    def assume(self, t, why=""):
        if self.assumes:
            t = z3.Implies(z3.And(*self.assumes), t)
        self.pc.append(t)
        if why:
            self.assumption_log[why] = self.assumption_log.get(why, 0) + 1

    def note_assumption(self, why):
        self.assumption_log[why] = self.assumption_log.get(why, 0) + 1

    def push_assume(self, t):
        self.assumes.append(t)

    def pop_assume(self):
        self.assumes.pop()

    def feasible(self, extra):
        # re-execution recreates identical terms (deterministic symbol names, hash-consed ASTs): queries repeat verbatim along
        # shared path prefixes and inside merged evaluations, so they are memoised per exploration (terms kept alive by the cache)
        pcs = self.all_pc()
        cache = self.symtab.setdefault("__feas_cache__", {})
        key = (tuple(a.get_id() for a in pcs), extra.get_id())
        hit = cache.get(key)
        if hit is not None:
            return hit[0]
        # witness shortcut: a model known to satisfy the whole path condition that also satisfies `extra` proves feasibility
        if self._model is not None:
            ok = True
            for a in pcs:
                i = a.get_id()
                if i in self._model_ok:
                    continue
                if z3.is_true(self._model.eval(a, model_completion=True)):
                    self._model_ok[i] = a
                else:
                    ok = False
                    break
            if not ok:
                self._model, self._model_ok = None, {}
            elif z3.is_true(self._model.eval(extra, model_completion=True)):
                STATS.model_hits += 1
                cache[key] = (True, pcs, extra)
                return True
        STATS.feas_calls += 1
        if self.symtab.get("__feas_linear__"):
            # relational obligations carry nonlinear facts (products of mirrored sqrt prices) that make feasibility queries slow:
            # decide feasibility on the LINEAR part of the path condition only.  Dropping conjuncts over-approximates feasibility,
            # so at worst an infeasible path is explored (its obligations are then discharged against the full path condition).
            lin = [a for a in pcs + [extra] if not _nonlinear(a)]
            r, s = check(lin, FEAS_RLIMIT, FEAS_TIMEOUT_MS)
            if r == z3.sat and len(lin) != len(pcs) + 1:
                s = None      # a model of the relaxation is not a witness of the full path condition
        else:
            r, s = check(pcs + [extra], FEAS_RLIMIT, FEAS_TIMEOUT_MS)
        if r == z3.unknown:
            STATS.unknown_feas += 1
        if r == z3.sat and self._model is None and s is not None:
            try:
                self._model = s.model()
                self._model_ok = {a.get_id(): a for a in pcs}
            except z3.Z3Exception:
                self._model = None
        cache[key] = (r != z3.unsat, pcs, extra)
        return r != z3.unsat

    def branch(self, cond):
        cond = z3.simplify(cond)
        if z3.is_true(cond):
            return True
        if z3.is_false(cond):
            return False
        lit = self._known(cond)
        if lit is not None and (self.assumes or len(self.trace) >= len(self.prefix)):
            if self.assumes:
                return lit
            self.trace.append(1 if lit else 0)     # already a conjunct of the path condition: nothing to add
            return lit
        if self.assumes:
            ft = self.feasible(cond)
            ff = self.feasible(z3.Not(cond))
            if ft and not ff:
                return True
            if ff and not ft:
                return False
            raise MergeAbort("fork inside merged evaluation")
        i = len(self.trace)
        if i < len(self.prefix):
            d = self.prefix[i]
        else:
            ft = self.feasible(cond)
            ff = self.feasible(z3.Not(cond))
            if ft and ff:
                d = 1
                self.alts.append(self.trace + [0])
            elif ft:
                d = 1
            elif ff:
                d = 0
            else:
                raise PathInfeasible()
        self.trace.append(d)
        if self._known(cond) is None:
            self.pc.append(cond if d else z3.Not(cond))
        return bool(d)

    def _known(self, cond):
        """cond (or its negation) already is, syntactically, a conjunct of the path condition"""
        neg = False
        a = cond
        while z3.is_not(a):
            a = a.arg(0)
            neg = not neg
        aid = a.get_id()
        for c in self.pc[-400:] + self.assumes:
            n2 = False
            b = c
            while z3.is_not(b):
                b = b.arg(0)
                n2 = not n2
            if b.get_id() == aid:
                return neg == n2
        return None

    def choose(self, n, label=""):
        """Nondeterministic choice among n alternatives (used by loop-invariant schemes)."""
        if self.assumes:
            raise MergeAbort("choice inside merged evaluation")
        i = len(self.trace)
        if i < len(self.prefix):
            d = self.prefix[i]
        else:
            d = 0
            for k in range(1, n):
                self.alts.append(self.trace + [k])
        self.trace.append(d)
        return d

    # -- obligations
    def vc(self, name, goal, kind="post", site=""):
        if isinstance(goal, SV):
            goal = goal.t if goal.ty == BOOL else (goal.t != 0)
        elif isinstance(goal, bool):
            goal = z3.BoolVal(goal)
        self.vcs.append(VC(name, list(self.all_pc()), goal, kind, site, self.path_id))

    def frame_violation(self, label, what):
        self.frame_violations.append((label, what, list(self.all_pc())))


class TransModel:
    """model living in a private z3 context; evaluates terms of the main context by translating them"""

    def __init__(self, model, ctx):
        self.model, self.ctx = model, ctx

    def eval(self, t, model_completion=False):
        v = self.model.eval(t.translate(self.ctx), model_completion=model_completion)
        return v.translate(z3.main_ctx())

    def decls(self):
        return self.model.decls()

    def __getitem__(self, d):
        return self.model[d]


def _solve(asserts, ctx, rlimit, seed=None, timeout_ms=None):
    s = z3.Solver(ctx=ctx)
    s.set("rlimit", rlimit)
    s.set("timeout", int(timeout_ms if timeout_ms is not None else VC_TIMEOUT_MS))
    if seed is not None:
        s.set("random_seed", seed)
    # z3's own timeout is not honoured in every phase of the nonlinear solver (a query was seen running ten minutes past a 120 s limit):
    # a watchdog interrupts the context shortly after the limit; the check then returns unknown ("canceled" / "interrupted")
    import threading
    limit_s = (timeout_ms if timeout_ms is not None else VC_TIMEOUT_MS) / 1000.0 + 5
    wd = threading.Timer(limit_s, ctx.interrupt)
    wd.daemon = True
    wd.start()
    try:
        for a in asserts:
            s.add(a)
        try:
            return s.check(), s
        except z3.Z3Exception:
            return z3.unknown, s
    finally:
        wd.cancel()
    for a in asserts:
        s.add(a)
    return s.check(), s


def _ite_conditions(asserts, limit=6):
    seen, out, stack = set(), [], list(asserts)
    while stack:
        t = stack.pop()
        if t.get_id() in seen:
            continue
        seen.add(t.get_id())
        if z3.is_app_of(t, z3.Z3_OP_ITE) and not z3.is_bool(t):
            c = t.arg(0)
            while z3.is_not(c):
                c = c.arg(0)
            if all(c.get_id() != o.get_id() for o in out):
                out.append(c)
                if len(out) > limit:
                    return None
        stack.extend(t.children())
    return out


def _solve_by_ite_cases(asserts, ctx, rlimit, wall_s=240):
    """complete case split over the truth values of the ite conditions: all cases unsat => unsat; a sat case => sat
    (the case's condition values are asserted, so its model is a model of the original assertions)"""
    conds = _ite_conditions(asserts)
    if not conds:
        return z3.unknown, None
    tt, ff = z3.BoolVal(True, ctx), z3.BoolVal(False, ctx)
    import itertools
    budget = max(rlimit // (2 ** len(conds)), rlimit // 8)
    t_start = time.time()
    for vals in itertools.product((True, False), repeat=len(conds)):
        if time.time() - t_start > wall_s:
            return z3.unknown, None
        sub = [(c, tt if v else ff) for c, v in zip(conds, vals)]
        case = [z3.simplify(z3.substitute(a, *sub)) for a in asserts] + [c if v else z3.Not(c) for c, v in zip(conds, vals)]
        if any(z3.is_false(a) for a in case):
            continue
        r, s = _solve(case, ctx, budget, None, max(2000, (wall_s - (time.time() - t_start)) * 1000))
        if r == z3.sat:
            return r, s
        if r == z3.unknown:
            return z3.unknown, None
    return z3.unsat, None


def discharge(vc: VC):
    g = z3.simplify(vc.goal)
    if z3.is_true(g):
        vc.verdict = "unsat"
        vc.reason = "trivial"
        return vc
    STATS.vc_calls += 1
    t0 = time.time()
    # every obligation is decided in a private, fresh z3 context: the verdict (and the rlimit budget it needs) then depends on
    # the obligation's text only, not on whatever terms the exploration left alive in the shared context
    ctx = z3.Context()
    asserts = [a.translate(ctx) for a in vc.pc] + [z3.Not(vc.goal).translate(ctx)]
    r, s = _solve(asserts, ctx, VC_RLIMIT // 10, None, 40_000)
    how = "direct"
    if r == z3.unknown and STATS.unknown_vcs >= 1:
        # this task has already left several obligations undecided after the full escalation (a changed function can make a whole family
        # of obligations hard at once): the remaining ones get the direct attempt only, so that the run ends and the native samples —
        # which decide such cases on the real code — are reached.  Undecided is never a pass.
        STATS.solver_s += time.time() - t0
        vc.seconds = time.time() - t0
        vc.verdict, vc.reason = "unknown", "direct attempt only (earlier obligations of this task exhausted the escalation)"
        STATS.unknown_vcs += 1
        return vc
    if r == z3.unknown:
        # escalation under a wall-clock budget per obligation (VC_BUDGET_S): if-then-else case split, the full rlimit, other random seeds
        # (nonlinear queries near the budget are unstable: the same text is decided in seconds or not at all depending on the solver's
        # internal choices; any decided attempt is a sound verdict)
        left = lambda: VC_BUDGET_S - (time.time() - t0)
        r2, s2 = _solve_by_ite_cases(asserts, ctx, VC_RLIMIT, max(10, left() / 2))
        if r2 != z3.unknown:
            r, s, how = r2, s2, "ite-case-split"
        else:
            if left() > 5:
                r, s = _solve(asserts, ctx, VC_RLIMIT, None, min(VC_TIMEOUT_MS, left() * 1000))
            for seed in (7, 101, 4242):
                if r != z3.unknown or left() < 5:
                    break
                r, s = _solve(asserts, ctx, VC_RLIMIT, seed, min(VC_TIMEOUT_MS, left() * 1000))
                how = f"retry(seed={seed})"
    STATS.solver_s += time.time() - t0
    vc.seconds = time.time() - t0
    vc.reason = how
    if r == z3.unsat:
        vc.verdict = "unsat"
        if CROSSCHECK and STATS.cross["checked"] < CROSS_MAX and not any(_nonlinear(a) for a in vc.pc) and not _nonlinear(vc.goal):
            c = _cvc5_says(asserts, ctx)
            STATS.cross["checked"] += 1
            STATS.cross[c] += 1
            if c == "disagree":
                vc.verdict = "unknown"
                vc.reason = "second solver (cvc5) reports sat where z3 reports unsat"
    elif r == z3.sat:
        vc.verdict = "sat"
        vc.model = TransModel(s.model(), ctx)
    else:
        vc.verdict = "unknown"
        vc.reason = s.reason_unknown() if s is not None else "unknown"
        STATS.unknown_vcs += 1
    return vc


class GlobalState:
    """Module-level and class-level mutable containers of the code under analysis (memo dicts, registries).  The interpreter mutates
    the REAL objects, so without care a value planted on one path (a symbol of that path) would be visible on the next one.  The
    pristine contents are recorded once and restored before every path / native sample: paths are independent, while WITHIN a path
    such state persists — exactly as it does between the calls of one process."""

    def __init__(self, prefix="demeter"):
        import sys
        seen, self.saved = set(), []
        for name, mod in list(sys.modules.items()):
            if not (name == prefix or name.startswith(prefix + ".")):
                continue
            for k, v in list(vars(mod).items()):
                self._add(k, v, seen)
                if isinstance(v, type) and str(getattr(v, "__module__", "")).startswith(prefix):
                    for k2, v2 in list(vars(v).items()):
                        self._add(k2, v2, seen)

    def _add(self, k, v, seen):
        if k.startswith("__") or id(v) in seen or not isinstance(v, (dict, list, set)):
            return
        seen.add(id(v))
        self.saved.append((v, v.copy()))

    def restore(self):
        for obj, snap in self.saved:
            try:
                same = len(obj) == len(snap) and (all(a is b for a, b in zip(obj, snap)) if isinstance(obj, list) else
                                                   (all(k in snap and obj[k] is snap[k] for k in obj) if isinstance(obj, dict) else obj == snap))
            except Exception:
                same = False
            if not same:
                obj.clear()
                if isinstance(obj, dict):
                    obj.update(snap)
                elif isinstance(obj, list):
                    obj.extend(snap)
                else:
                    obj |= snap


_GLOBALS = None


def restore_globals():
    global _GLOBALS
    if _GLOBALS is None:
        _GLOBALS = GlobalState()
    else:
        try:
            _GLOBALS.restore()
        except Exception:
            pass


CROSSCHECK = os.environ.get("PYVC_CROSSCHECK") == "1"
CROSS_MAX = int(os.environ.get("PYVC_CROSS_MAX", 150))      # per PO x shape task


def _cvc5_says(asserts, ctx):
    """re-decide a LINEAR obligation that z3 discharged with /usr/bin/cvc5 (independent implementation): agree / disagree / unknown"""
    import subprocess, tempfile
    t0 = time.time()
    try:
        sol = z3.Solver(ctx=ctx)
        for a in asserts:
            sol.add(a)
        text = "(set-logic ALL)\n" + sol.to_smt2()
        with tempfile.NamedTemporaryFile("w", suffix=".smt2", delete=True) as f:
            f.write(text)
            f.flush()
            out = subprocess.run(["/usr/bin/cvc5", "--lang=smt2", "--tlimit=15000", f.name], capture_output=True, text=True, timeout=30).stdout.strip().splitlines()
        res = out[0].strip() if out else "unknown"
        return {"unsat": "agree", "sat": "disagree"}.get(res, "unknown")
    except Exception:
        return "error"
    finally:
        STATS.cross["seconds"] += time.time() - t0


class Exploration:
    """Runs `body(interp, path)` over all feasible paths."""

    def __init__(self, body, config=None, max_paths=20000, initial_work=None, split_after_s=None):
        self.initial_work = [list(x) for x in initial_work] if initial_work else [[]]
        self.split_after_s = split_after_s      # after this many seconds stop and hand the pending prefixes back (self.pending)
        self.pending = []
        self.body = body
        self.config = config or {}
        self.max_paths = max_paths
        self.symtab = {}
        if self.config.get("feas_linear"):
            self.symtab["__feas_linear__"] = True
        self.paths = 0
        self.vcs = []
        self.unsupported = []
        self.infeasible = 0
        self.frame_violations = []
        self.outcomes = []
        self.path_covers = []
        self._covered = set()

    def run(self):
        work = list(self.initial_work)
        t_start = time.time()
        max_s = float(self.config.get("max_seconds", os.environ.get("PYVC_MAX_SECONDS", 300)))
        while work:
            prefix = work.pop()
            if self.paths >= self.max_paths:
                self.unsupported.append(f"path budget {self.max_paths} exceeded")
                break
            if self.split_after_s is not None and time.time() - t_start > self.split_after_s and self.paths > 0:
                self.pending = [prefix] + work
                break
            if time.time() - t_start > max_s:
                self.unsupported.append(f"exploration time budget {max_s:.0f}s exceeded after {self.paths} paths ({len(work) + 1} pending)")
                break
            restore_globals()
            p = Path(prefix, self.symtab, self.paths)
            self.paths += 1
            it = Interp(p, self.config)
            try:
                out = self.body(it, p)
                self.outcomes.append(out)
                new = p.cover - self._covered
                if new:
                    r, _ = check(p.pc, FEAS_RLIMIT, FEAS_TIMEOUT_MS)
                    if r == z3.sat:
                        self._covered |= new
                        self.path_covers.append(set(new))
            except PathInfeasible:
                self.infeasible += 1
            except PathEnd:
                pass
            except ProgExc as pe:
                # an exception of the program under analysis escaped the PO text: every PO implicitly ensures that none does
                p.vc(f"no-exception-escapes:{type(pe.exc).__name__}", False, kind="exception", site=str(pe.site))
            except (Unsupported, NativeLeak) as u:
                self.unsupported.append(f"{type(u).__name__}: {u} [calls: {' > '.join(it.call_log[-4:])}]")
            work.extend(p.alts)
            self.vcs.extend(p.vcs)
            self.frame_violations.extend(p.frame_violations)
        return self
