"""Path exploration by re-execution, verification conditions, solver access."""
from __future__ import annotations
import time, os, json
import z3
from .sym import SV, INT, DEC, FLT, BOOL, Unsupported, NativeLeak
from .interp import PathInfeasible, PathEnd, ProgExc, Interp

FEAS_RLIMIT = int(os.environ.get("PYVC_FEAS_RLIMIT", 3_000_000))
VC_RLIMIT = int(os.environ.get("PYVC_VC_RLIMIT", 60_000_000))
FEAS_TIMEOUT_MS = 20_000
VC_TIMEOUT_MS = 120_000


class MergeAbort(Unsupported):
    """A fork was requested while evaluating both sides of a merge: fall back to forking the `if`."""


class Stats:
    def __init__(self):
        self.solver_s = 0.0
        self.feas_calls = 0
        self.vc_calls = 0
        self.unknown_feas = 0


STATS = Stats()


def check(assertions, rlimit, timeout_ms):
    s = z3.Solver()
    s.set("rlimit", rlimit)
    s.set("timeout", timeout_ms)
    for a in assertions:
        s.add(a)
    t0 = time.time()
    r = s.check()
    STATS.solver_s += time.time() - t0
    return r, s


class VC:
    __slots__ = ("name", "pc", "goal", "kind", "site", "verdict", "model", "seconds", "path_id", "reason")

    def __init__(self, name, pc, goal, kind, site, path_id):
        self.name, self.pc, self.goal, self.kind, self.site, self.path_id = name, pc, goal, kind, site, path_id
        self.verdict = None
        self.model = None
        self.seconds = 0.0
        self.reason = ""


class Path:
    def __init__(self, prefix, symtab, path_id):
        self.prefix = list(prefix)
        self.trace = []
        self.pc = []
        self.assumes = []       # stack of temporary guards during merges
        self.alts = []
        self.vcs = []
        self.symtab = symtab    # shared registry: name -> SV (stable across re-executions)
        self.path_id = path_id
        self.notes = []
        self.ufs = {}
        self.fresh_ctr = {}
        self.assumption_log = symtab.setdefault("__assumptions__", {})
        self.frame_violations = []
        self.cover = set()

    # -- symbols: deterministic names so that re-execution recreates identical terms
    def fresh_real(self, base):
        n = self.fresh_ctr.get(base, 0)
        self.fresh_ctr[base] = n + 1
        return z3.Real(f"{base}!{n}")

    def fresh_int(self, base):
        n = self.fresh_ctr.get(base, 0)
        self.fresh_ctr[base] = n + 1
        return z3.Int(f"{base}!{n}")

    def fresh_bool(self, base):
        n = self.fresh_ctr.get(base, 0)
        self.fresh_ctr[base] = n + 1
        return z3.Bool(f"{base}!{n}")

    def fresh_like(self, v, base):
        if isinstance(v, SV):
            ty = v.ty
        else:
            from .sym import pytype_of
            ty = pytype_of(v)
        if ty == BOOL:
            return SV(self.fresh_bool(base), BOOL)
        if ty == INT:
            return SV(self.fresh_int(base), INT)
        if ty in (DEC, FLT):
            return SV(self.fresh_real(base), ty)
        raise Unsupported(f"cannot havoc a value of type {type(v).__name__} ({base})")

    def uf(self, name, *sorts):
        if name not in self.ufs:
            self.ufs[name] = z3.Function(name, *sorts)
        return self.ufs[name]

    # -- assumptions
    def all_pc(self):
        return self.pc + self.assumes

    def assume(self, t, why=""):
        if self.assumes:
            t = z3.Implies(z3.And(*self.assumes), t)
        self.pc.append(t)
        if why:
            self.assumption_log[why] = self.assumption_log.get(why, 0) + 1

    def push_assume(self, t):
        self.assumes.append(t)

    def pop_assume(self):
        self.assumes.pop()

    def feasible(self, extra):
        STATS.feas_calls += 1
        r, _ = check(self.all_pc() + [extra], FEAS_RLIMIT, FEAS_TIMEOUT_MS)
        if r == z3.unknown:
            STATS.unknown_feas += 1
        return r != z3.unsat

    def branch(self, cond):
        cond = z3.simplify(cond)
        if z3.is_true(cond):
            return True
        if z3.is_false(cond):
            return False
        if self.assumes:
            ft = self.feasible(cond)
            ff = self.feasible(z3.Not(cond))
            if ft and not ff:
                return True
            if ff and not ft:
                return False
            raise MergeAbort("fork inside merged evaluation")
        i = len(self.trace)
        if i < len(self.prefix):
            d = self.prefix[i]
        else:
            ft = self.feasible(cond)
            ff = self.feasible(z3.Not(cond))
            if ft and ff:
                d = 1
                self.alts.append(self.trace + [0])
            elif ft:
                d = 1
            elif ff:
                d = 0
            else:
                raise PathInfeasible()
        self.trace.append(d)
        self.pc.append(cond if d else z3.Not(cond))
        return bool(d)

    def choose(self, n, label=""):
        """Nondeterministic choice among n alternatives (used by loop-invariant schemes)."""
        if self.assumes:
            raise MergeAbort("choice inside merged evaluation")
        i = len(self.trace)
        if i < len(self.prefix):
            d = self.prefix[i]
        else:
            d = 0
            for k in range(1, n):
                self.alts.append(self.trace + [k])
        self.trace.append(d)
        return d

    # -- obligations
    def vc(self, name, goal, kind="post", site=""):
        if isinstance(goal, SV):
            goal = goal.t if goal.ty == BOOL else (goal.t != 0)
        elif isinstance(goal, bool):
            goal = z3.BoolVal(goal)
        self.vcs.append(VC(name, list(self.all_pc()), goal, kind, site, self.path_id))

    def frame_violation(self, label, what):
        self.frame_violations.append((label, what, list(self.all_pc())))


def discharge(vc: VC):
    g = z3.simplify(vc.goal)
    if z3.is_true(g):
        vc.verdict = "unsat"
        vc.reason = "trivial"
        return vc
    STATS.vc_calls += 1
    t0 = time.time()
    r, s = check(vc.pc + [z3.Not(vc.goal)], VC_RLIMIT, VC_TIMEOUT_MS)
    vc.seconds = time.time() - t0
    if r == z3.unsat:
        vc.verdict = "unsat"
    elif r == z3.sat:
        vc.verdict = "sat"
        vc.model = s.model()
    else:
        vc.verdict = "unknown"
        vc.reason = s.reason_unknown()
    return vc


class Exploration:
    """Runs `body(interp, path)` over all feasible paths."""

    def __init__(self, body, config=None, max_paths=20000):
        self.body = body
        self.config = config or {}
        self.max_paths = max_paths
        self.symtab = {}
        self.paths = 0
        self.vcs = []
        self.unsupported = []
        self.infeasible = 0
        self.frame_violations = []
        self.outcomes = []
        self.path_covers = []
        self._covered = set()

    def run(self):
        work = [[]]
        while work:
            prefix = work.pop()
            if self.paths >= self.max_paths:
                self.unsupported.append(f"path budget {self.max_paths} exceeded")
                break
            p = Path(prefix, self.symtab, self.paths)
            self.paths += 1
            it = Interp(p, self.config)
            try:
                out = self.body(it, p)
                self.outcomes.append(out)
                new = p.cover - self._covered
                if new:
                    r, _ = check(p.pc, FEAS_RLIMIT, FEAS_TIMEOUT_MS)
                    if r == z3.sat:
                        self._covered |= new
                        self.path_covers.append(set(new))
            except PathInfeasible:
                self.infeasible += 1
            except PathEnd:
                pass
            except ProgExc as pe:
                # an exception of the program under analysis escaped the PO text: every PO implicitly ensures that none does
                p.vc(f"no-exception-escapes:{type(pe.exc).__name__}", False, kind="exception", site=str(pe.site))
            except (Unsupported, NativeLeak) as u:
                self.unsupported.append(f"{type(u).__name__}: {u} [calls: {' > '.join(it.call_log[-4:])}]")
            work.extend(p.alts)
            self.vcs.extend(p.vcs)
            self.frame_violations.extend(p.frame_violations)
        return self
