"""Symbolic timestamps / time spans: integer minutes since an epoch (bars are minute-aligned by construction:
demeter's to_minute() and the minute-indexed data frames).  SymTime +/- SymDelta, comparisons, // and * on spans."""
from __future__ import annotations
import datetime
import z3
import pandas as pd
from .sym import SV, INT, BOOL, lift, as_int_term, Unsupported, int_floordiv

EPOCH = pd.Timestamp("2024-01-01 00:00:00")


def _m(x):
    """minutes term of a time-like value"""
    if isinstance(x, (SymTime, SymDelta)):
        return as_int_term(lift(x.m))
    if isinstance(x, (pd.Timestamp, datetime.datetime)):
        d = pd.Timestamp(x) - EPOCH
        s = d.total_seconds()
        if s % 60:
            raise Unsupported("timestamp not on a minute")
        return z3.IntVal(int(s // 60))
    if isinstance(x, (pd.Timedelta, datetime.timedelta)):
        s = pd.Timedelta(x).total_seconds()
        if s % 60:
            raise Unsupported("time span not a whole number of minutes")
        return z3.IntVal(int(s // 60))
    raise Unsupported(f"not a time value: {type(x).__name__}")


def _is_time(x):
    return isinstance(x, (SymTime, pd.Timestamp, datetime.datetime))


def _is_delta(x):
    return isinstance(x, (SymDelta, pd.Timedelta, datetime.timedelta))


class _Base:
    __sym_native__ = True

    def __init__(self, m):
        self.m = m

    def __deepcopy__(self, memo):
        return self

    def __hash__(self):
        return hash((type(self).__name__, str(self.m)))

    def __sym_ite__(self, c, other):
        if type(other) is not type(self) and not (_is_time(other) if isinstance(self, SymTime) else _is_delta(other)):
            raise Unsupported("merge of a time with a non-time")
        return type(self)(SV(z3.If(c, _m(self), _m(other)), INT))

    def __sym_compare__(self, interp, opname, other, reflected):
        if other is None:
            return opname == "NotEq"
        same = (_is_time(other) if isinstance(self, SymTime) else _is_delta(other))
        if not same:
            if opname == "Eq":
                return False
            if opname == "NotEq":
                return True
            raise Unsupported(f"comparison of {type(self).__name__} with {type(other).__name__}")
        a, b = _m(self), _m(other)
        if reflected:
            a, b = b, a
        t = {"Eq": a == b, "NotEq": a != b, "Lt": a < b, "LtE": a <= b, "Gt": a > b, "GtE": a >= b}[opname]
        return SV(t, BOOL)

    def __repr__(self):
        return f"{type(self).__name__}({self.m!r})"


class SymTime(_Base):
    def __sym_binop__(self, interp, op, other, reflected):
        if op == "+" and _is_delta(other):
            return SymTime(SV(_m(self) + _m(other), INT))
        if op == "-" and not reflected and _is_delta(other):
            return SymTime(SV(_m(self) - _m(other), INT))
        if op == "-" and _is_time(other):
            return SymDelta(SV((_m(other) - _m(self)) if reflected else (_m(self) - _m(other)), INT))
        raise Unsupported(f"time {op} {type(other).__name__}")

    def floor(self, freq):
        if freq in ("1h", "h", "H", "1H"):
            return SymTime(SV((_m(self) / 60) * 60, INT))     # EPOCH is on an hour; z3 int '/' floors for a positive divisor
        raise Unsupported(f"Timestamp.floor({freq})")


class SymDelta(_Base):
    def total_seconds(self):
        return SV(_m(self) * 60, INT)

    def __sym_binop__(self, interp, op, other, reflected):
        if op == "+" and _is_delta(other):
            return SymDelta(SV(_m(self) + _m(other), INT))
        if op == "+" and _is_time(other):
            return SymTime(SV(_m(self) + _m(other), INT))
        if op == "-" and _is_delta(other):
            return SymDelta(SV((_m(other) - _m(self)) if reflected else (_m(self) - _m(other)), INT))
        if op == "-" and reflected and _is_time(other):
            return SymTime(SV(_m(other) - _m(self), INT))
        if op == "*" and (isinstance(other, SV) or isinstance(other, int)):
            return SymDelta(SV(_m(self) * as_int_term(lift(other)), INT))
        if op == "//" and _is_delta(other):
            a, b = (_m(other), _m(self)) if reflected else (_m(self), _m(other))
            interp.check_div_zero(b, False)
            return SV(int_floordiv(a, b), INT)
        if op == "//" and not reflected and (isinstance(other, SV) or isinstance(other, int)):
            raise Unsupported("time span // number")
        raise Unsupported(f"time span {op} {type(other).__name__}")


def neg_delta(d):
    return SymDelta(SV(-_m(d), INT))


def mk_time(m):
    """minutes -> timestamp: symbolic wrapper for a symbol, a real pd.Timestamp for a concrete number."""
    if isinstance(m, SV):
        return SymTime(m)
    return EPOCH + pd.Timedelta(minutes=int(m))


def mk_delta(m):
    if isinstance(m, SV):
        return SymDelta(m)
    return datetime.timedelta(minutes=int(m))


mk_time.__pyvc_native__ = True
mk_delta.__pyvc_native__ = True
