import argparse, json, os, sys


def main():
    ap = argparse.ArgumentParser(prog="vf")
    sub = ap.add_subparsers(dest="cmd", required=True)
    c = sub.add_parser("check")
    c.add_argument("prop")
    c.add_argument("--tier", default=os.environ.get("VERIF_TIER", "quick"), choices=["quick", "thorough"])
    c.add_argument("--jobs", type=int, default=None)
    c.add_argument("--only", action="append")
    r = sub.add_parser("replay")
    r.add_argument("path")
    sub.add_parser("selftest")
    a = ap.parse_args()
    seed = int(os.environ.get("VERIF_SEED", "0") or 0)
    if a.cmd == "check":
        from .runner import check_property
        tier = os.environ.get("VERIF_TIER") or a.tier
        try:
            code = check_property(a.prop, tier, seed, a.jobs, a.only)
        except Exception:
            import traceback
            traceback.print_exc()
            code = 3
        sys.exit(code)
    if a.cmd == "replay":
        from .runner import _load, run_native
        d = json.load(open(a.path))
        pos, _ = _load(d["property"])
        po = next(p for p in pos if p.name == d["po"])
        clause = d["failed_obligation"][len(d["po"]) + 1:]
        if po.strength == "X":
            out = po.fn({"shape": d["shape"], "tier": d.get("tier", "quick"), "seed": d.get("seed", 0), "replay": d["inputs"]})
            bad = [k for k, r in out.items() if r.get("failures")]
            print(json.dumps({"failed_obligation": d["failed_obligation"], "inputs": d["inputs"], "clause_false_natively": bool(bad), "clauses": bad}, indent=1, default=str))
            sys.exit(1 if bad else 0)
        results, rejected, exc, S = run_native(po, d["shape"], d["inputs"])
        bad = [x for x in results if x[0] == clause and not x[1]]
        from .runner import _exc_hit
        if _exc_hit(clause, exc):
            bad = [(clause, False, exc)]
        print(json.dumps({"failed_obligation": d["failed_obligation"], "inputs": d["inputs"], "clause_false_natively": bool(bad),
                          "detail": [x[2] for x in bad][:3], "native_exception": exc, "outside_precondition": rejected}, indent=1, default=str))
        sys.exit(1 if bad else 0)
    if a.cmd == "selftest":
        from .selftest import main as st
        sys.exit(st())


if __name__ == "__main__":
    main()
