"""Run the proof obligations of one property: explore, discharge, replay, evidence."""
from __future__ import annotations
import importlib, json, os, random, re, sys, time, traceback, hashlib
from concurrent.futures import ProcessPoolExecutor, as_completed
from decimal import Decimal
from fractions import Fraction

ROOT = os.path.realpath(os.path.join(os.path.dirname(__file__), ".."))
REPO = os.path.realpath(os.environ.get("DEMETER_REPO", "/repo"))
OUT = os.path.realpath(os.environ.get("VF_OUT", ROOT))   # evidence/ and replays/ live here (scratch runs on mutants set VF_OUT)


def _load(prop):
    if REPO not in sys.path:
        sys.path.insert(0, REPO)
    if ROOT not in sys.path:
        sys.path.insert(0, ROOT)
    from . import api
    mod = importlib.import_module(f"contracts.{prop.lower()}")
    return api.REGISTRY.get(prop, []), mod


def _shape_list(po, tier):
    sh = po.shapes
    if sh is None:
        return [None]
    if callable(sh):
        return list(sh(tier))
    if isinstance(sh, dict):
        return list(sh.get(tier, sh.get("quick", [None])))
    return list(sh)


def _model_inputs(model, S):
    import z3
    from .sym import to_concrete
    out = {}
    from .seq import SymSeq
    from .sym import SV, z3val_to_py
    for name, sv in S.inputs.items():
        if isinstance(sv, SymSeq):
            try:
                n = to_concrete(model, sv.length)
                n = max(0, min(int(n), 64))
                out[name] = [_ser(z3val_to_py(model.eval(sv.f(z3.IntVal(i)), model_completion=True), sv.kind)) for i in range(n)]
            except Exception as e:
                out[name] = []
            continue
        try:
            v = to_concrete(model, sv)
        except Exception:
            v = 0
        out[name] = _ser(v)
    return out


def _ser(v):
    if isinstance(v, bool):
        return v
    if isinstance(v, int):
        return str(v) if abs(v) > 2 ** 53 else v
    if isinstance(v, Decimal):
        return str(v)
    if isinstance(v, float):
        return repr(v)
    return str(v)


def _serx(v):
    if hasattr(v, "tolist") and not isinstance(v, (str, bytes)):
        v = v.tolist()
    if isinstance(v, (list, tuple)):
        return [_ser(x) for x in v]
    return _ser(v)


def run_native(po, shape, values=None, rng=None, strict=False):
    """Run the PO natively (real code under CPython). Returns (results, rejected, exception_text, S)."""
    from .api import ConcreteScenario, AssumptionFailed
    S = ConcreteScenario(values=values, shape=shape, rng=rng, strict=strict)
    from .engine import restore_globals
    restore_globals()
    exc = None
    try:
        po.fn(S)
    except AssumptionFailed:
        pass
    except Exception as e:  # the PO text expects no exception to escape: report it
        exc = "".join(traceback.format_exception_only(type(e), e)).strip() + " @ " + _tb_site(e)
    return S.results, S.rejected, exc, S


def _tb_site(e):
    tb = e.__traceback__
    last = None
    while tb is not None:
        last = tb
        tb = tb.tb_next
    if last is None:
        return "?"
    return f"{last.tb_frame.f_code.co_filename}:{last.tb_lineno}"


def replay_failure(po, shape, clause, values, seed, tries=150):
    """Replay a counter-model natively; search around it if it does not reproduce at the point."""
    results, rejected, exc, S = run_native(po, shape, values)
    hit = _clause_false(results, clause, exc) or _exc_hit(clause, exc)
    info = {"at_model": {"clause_false": hit, "rejected_by_precondition": rejected, "native_exception": exc}}
    if hit:
        return True, values, info
    rng = random.Random(seed)
    for i in range(tries):
        pert = {}
        for k, v in values.items():
            if isinstance(v, list):
                pert[k] = [_perturb(x, rng, ("Decimal",)) for x in v]
            else:
                pert[k] = _perturb(v, rng, S.kinds.get(k))
        results, rejected, exc2, _ = run_native(po, shape, pert)
        if not rejected and (_clause_false(results, clause, exc2) or _exc_hit(clause, exc2)):
            info["search"] = {"tries": i + 1, "found": True}
            return True, pert, info
    # the model's values of contracted callees (uninterpreted results) need not be realisable by the real callee:
    # fall back to sampling the PO's own input ranges natively
    for i in range(tries * 2):
        results, rejected, exc2, S2 = run_native(po, shape, None, rng)
        if not rejected and (_clause_false(results, clause, exc2) or _exc_hit(clause, exc2)):
            info["search"] = {"tries": tries + i + 1, "found": True, "by": "range sampling"}
            return True, {k: _serx(v) for k, v in S2.inputs.items()}, info
    info["search"] = {"tries": tries * 3, "found": False}
    return False, values, info


def _perturb(v, rng, kind):
    if isinstance(v, bool):
        return v
    try:
        fr = Fraction(v) if not isinstance(v, str) else Fraction(v)
    except Exception:
        return v
    k = kind[0] if kind else "Decimal"
    if k == "int":
        d = rng.choice([0, 0, 1, -1, 2, -2, 10, -10])
        return _ser(int(fr) + d)
    if k == "bool":
        return v
    scale = rng.choice([0, 1e-9, 1e-6, 1e-3, 0.05, 0.3])
    nf = fr * Fraction(1 + scale * rng.uniform(-1, 1)).limit_denominator(10 ** 12)
    # round to a "natural" number of digits so Decimal inputs look like user inputs
    digits = rng.choice([2, 6, 12, 18])
    nf = Fraction(round(nf * 10 ** digits), 10 ** digits)
    return str(nf)


def _exc_hit(clause, exc):
    """obligation 'no-exception-escapes:<Type>' is reproduced when the native run raises that exception type"""
    if not clause.startswith("no-exception-escapes:") or not exc:
        return False
    return clause.split(":", 1)[1] in exc


def _clause_false(results, clause, exc=None):
    if clause.startswith("no-exception-escapes:"):
        return False
    if not any(n == clause for n, _, _ in results):
        # the failed obligation has no native counterpart (loop invariant, callee precondition): any
        # postcondition of the same PO failing natively, or an exception escaping the real code, is the failing input for it
        return any(not ok for n, ok, _ in results) or bool(exc)
    return any(n == clause and not ok for n, ok, _ in results)


def run_po_task(prop, po_index, shape, tier, seed, prefixes=None, split_s=None):
    """Worker: one PO x shape (or, with `prefixes`, the sub-trees of its path tree below the given decision prefixes).
    With split_s the exploration stops after that many seconds and hands the unexplored prefixes back in rec["pending"].
    Returns a JSON-able record."""
    t0 = time.time()
    rec = {"po": None, "shape": shape, "error": None, "pending": [], "key": (po_index, json.dumps(shape, sort_keys=True, default=str))}
    try:
        pos, _ = _load(prop)
        po = pos[po_index]
        rec["po"] = po.name
        rec["strength"] = po.strength
        rec["note"] = po.note
        from .engine import Exploration, discharge, STATS, check, FEAS_RLIMIT, FEAS_TIMEOUT_MS
        STATS.__init__()
        from .api import SymScenario
        from .interp import SOURCES
        import z3
        if po.strength == "B":
            return run_bounded_task(po, shape, tier, seed, rec, t0)
        if po.strength == "X":
            return run_exhaustive_task(po, shape, tier, seed, rec, t0)
        scen = {}

        def body(it, path):
            S = SymScenario(path, shape)
            scen[path.path_id] = S
            it.call_value(po.fn, [S], {})
            return "done"

        cfg = dict(po.config)
        cfg["contracts"] = dict(po.contracts)
        cfg["loops"] = dict(po.loops)
        ex = Exploration(body, cfg, max_paths=cfg.get("max_paths", 4000), initial_work=prefixes, split_after_s=split_s).run()
        rec["pending"] = ex.pending
        rec["paths"] = ex.paths
        rec["infeasible"] = ex.infeasible
        rec["unsupported"] = ex.unsupported[:10]
        clauses = {}
        failures = []
        for vc in ex.vcs:
            discharge(vc)
            c = clauses.setdefault(vc.name, {"kind": vc.kind, "instances": 0, "unsat": 0, "sat": 0, "unknown": 0, "seconds": 0.0, "trivial": 0})
            c["instances"] += 1
            c[vc.verdict] += 1
            c["seconds"] += vc.seconds
            if vc.reason == "trivial":
                c["trivial"] += 1
            if vc.verdict == "unknown":
                c["reason_unknown"] = vc.reason
            if vc.verdict == "sat" and not any(f["clause"] == vc.name for f in failures):
                S = scen[vc.path_id]
                values = _model_inputs(vc.model, S)
                ok, used, info = replay_failure(po, shape, vc.name, values, seed)
                failures.append({"clause": vc.name, "kind": vc.kind, "path": vc.path_id, "model": values,
                                 "reproduced": ok, "replay_inputs": used, "replay_info": info,
                                 "verifier_output": f"z3 sat on pc/\\not({vc.name}); goal={str(vc.goal)[:400]}"})
        # frame violations (write barrier)
        for label, what, pc in ex.frame_violations:
            clauses.setdefault(f"frame:{label}", {"kind": "frame", "instances": 0, "unsat": 0, "sat": 0, "unknown": 0, "seconds": 0.0, "trivial": 0})
            r, s = check(pc, FEAS_RLIMIT, FEAS_TIMEOUT_MS)
            c = clauses[f"frame:{label}"]
            c["instances"] += 1
            if r == z3.unsat:
                c["unsat"] += 1
            else:
                c["sat"] += 1
                if not any(f["clause"] == f"frame:{label}" for f in failures):
                    failures.append({"clause": f"frame:{label}", "kind": "frame", "path": -1, "model": {}, "reproduced": False,
                                     "replay_inputs": {}, "replay_info": {"what": what},
                                     "verifier_output": f"write to {label} ({what}) reachable"})
        # covers: expected labels must be reached on a path whose condition is satisfiable
        covers = {}
        rec["clauses"] = clauses
        rec["failures"] = failures
        rec["covers_expected"] = list(po.covers(shape) if callable(po.covers) else po.covers)
        rec["functions"] = SOURCES.report()
        rec["assumptions"] = dict(ex.symtab.get("__assumptions__", {}))
        rec["solver_s"] = STATS.solver_s
        rec["feas_calls"] = STATS.feas_calls
        rec["vc_calls"] = STATS.vc_calls
        rec["unknown_feas"] = STATS.unknown_feas
        rec["cross"] = dict(STATS.cross)
        rec["covers"] = ex_covers(ex, po, shape)
        # native sampling of the same contract text on the real code (sanity net, DESIGN §8.2)
        ns = cfg.get("native_samples", {"quick": 20, "thorough": 200}).get(tier, 20)
        rec["native"] = native_sampling(po, shape, seed, ns) if prefixes is None else {"ran": 0, "rejected": 0, "clause_failures": [], "exceptions": []}
    except BaseException as e:
        rec["error"] = "".join(traceback.format_exception(type(e), e, e.__traceback__))[-3000:]
    rec["wall_s"] = time.time() - t0
    return rec


def run_bounded_task(po, shape, tier, seed, rec, t0):
    """Bounded stand-in: the contract text is evaluated natively on the real code for N seeded inputs.
    Never counted as proved."""
    n = po.config.get("bounded_samples", {"quick": 300, "thorough": 5000}).get(tier, 300)
    rng = random.Random(seed * 104729 + 7)
    clauses, failures = {}, []
    ran = rej = 0
    excs = []
    for i in range(n):
        results, rejected, exc, S = run_native(po, shape, None, rng)
        if rejected:
            rej += 1
            continue
        ran += 1
        if exc:
            excs.append(exc)
            c = clauses.setdefault("no-unexpected-exception", {"kind": "bounded", "instances": 0, "unsat": 0, "sat": 0, "unknown": 0, "seconds": 0.0, "trivial": 0})
            c["instances"] += 1
            c["sat"] += 1
            if not any(f["clause"] == "no-unexpected-exception" for f in failures):
                failures.append({"clause": "no-unexpected-exception", "kind": "bounded", "path": -1, "model": {}, "reproduced": True,
                                 "replay_inputs": {k: _serx(v) for k, v in S.inputs.items()}, "replay_info": {"native_exception": exc},
                                 "verifier_output": "native evaluation raised: " + exc})
        for name, ok, detail in results:
            c = clauses.setdefault(name, {"kind": "bounded", "instances": 0, "unsat": 0, "sat": 0, "unknown": 0, "seconds": 0.0, "trivial": 0})
            c["instances"] += 1
            c["unsat" if ok else "sat"] += 1
            if not ok and not any(f["clause"] == name for f in failures):
                failures.append({"clause": name, "kind": "bounded", "path": -1, "model": {}, "reproduced": True,
                                 "replay_inputs": {k: _serx(v) for k, v in S.inputs.items()}, "replay_info": {"detail": detail},
                                 "verifier_output": f"native evaluation of clause {name} is False ({detail})"})
    rec.update({"paths": 0, "infeasible": 0, "unsupported": [], "clauses": clauses, "failures": failures, "covers_expected": [],
                "functions": [], "assumptions": {f"bounded stand-in: {ran} seeded native evaluations (precondition rejected {rej})": 1},
                "solver_s": 0.0, "feas_calls": 0, "vc_calls": 0, "unknown_feas": 0, "covers": {},
                "native": {"ran": ran, "rejected": rej, "clause_failures": [], "exceptions": excs[:3]}, "wall_s": time.time() - t0})
    if ran == 0:
        rec["unsupported"] = ["bounded stand-in ran zero admissible samples"]
    return rec


def run_exhaustive_task(po, shape, tier, seed, rec, t0):
    """Exhaustive native evaluation of a finite domain (or a stated part of it) against an exact oracle.
    The PO function gets a context dict and returns {clause: {"instances": n, "failures": [inputs,...], "undecided": k}}.
    Reported as a bounded stand-in whose bound is the enumerated domain; never counted as proved."""
    out = po.fn({"shape": shape, "tier": tier, "seed": seed})
    clauses, failures = {}, []
    total = 0
    for name, r in out.items():
        n, bad = int(r.get("instances", 0)), list(r.get("failures", []))
        total += n
        clauses[name] = {"kind": "exhaustive", "instances": n, "unsat": n - len(bad), "sat": len(bad), "unknown": int(r.get("undecided", 0)),
                         "seconds": 0.0, "trivial": 0}
        if bad:
            failures.append({"clause": name, "kind": "exhaustive", "path": -1, "model": {}, "reproduced": True,
                             "replay_inputs": bad[0], "replay_info": {"more": bad[1:5]},
                             "verifier_output": f"native evaluation of clause {name} is False at {bad[0]}"})
    rec.update({"paths": 0, "infeasible": 0, "unsupported": [] if total else ["exhaustive task enumerated nothing"], "clauses": clauses,
                "failures": failures, "covers_expected": [], "functions": [],
                "assumptions": {f"exhaustive native enumeration ({po.note})": 1},
                "solver_s": 0.0, "feas_calls": 0, "vc_calls": 0, "unknown_feas": 0, "covers": {},
                "native": {"ran": total, "rejected": 0, "clause_failures": [], "exceptions": []}, "wall_s": time.time() - t0})
    return rec


def ex_covers(ex, po, shape=None):
    out = {}
    for lab in (po.covers(shape) if callable(po.covers) else po.covers):
        out[lab] = False
    for p_cover in getattr(ex, "path_covers", []):
        for lab in p_cover:
            out[lab] = True
    return out


def native_sampling(po, shape, seed, n):
    rng = random.Random(seed * 7919 + 13)
    ran = rej = 0
    fails = []
    excs = []
    for i in range(n * 6):
        if ran >= n:
            break
        results, rejected, exc, S = run_native(po, shape, None, rng)
        if rejected:
            rej += 1
            continue
        ran += 1
        if exc:
            if len(excs) < 3:
                excs.append(exc)
            # the PO text lets only rejections pass: any other exception escaping the real code is a failed obligation natively too
            if len(fails) < 5:
                fails.append({"clause": "no-exception-escapes:" + exc.split(":", 1)[0].split(".")[-1], "inputs": {k: _serx(v) for k, v in S.inputs.items()}, "detail": exc})
        for name, ok, detail in results:
            if not ok and len(fails) < 5:
                fails.append({"clause": name, "inputs": {k: _serx(v) for k, v in S.inputs.items()}, "detail": detail})
    return {"ran": ran, "rejected": rej, "clause_failures": fails, "exceptions": excs}


# ------------------------------------------------------------------------------------------- property-level driver
def _san(s):
    return re.sub(r"[^A-Za-z0-9_.-]+", "_", s)[:150]


def load_known():
    p = os.path.join(ROOT, "known_findings.json")
    if not os.path.exists(p):
        return {"findings": [], "fixed": []}
    return json.load(open(p))


def check_property(prop, tier, seed, jobs=None, only=None):
    t0 = time.time()
    if tier == "thorough" and "PYVC_CROSSCHECK" not in os.environ:
        os.environ["PYVC_CROSSCHECK"] = "1"       # thorough tier: linear obligations are re-decided by cvc5 (inherited by the workers)
    if only is None:     # replay files belong to the run that wrote them
        import shutil
        shutil.rmtree(os.path.join(OUT, "replays", prop), ignore_errors=True)
    pos, mod = _load(prop)
    tasks = []
    for i, po in enumerate(pos):
        if tier not in po.tiers:
            continue
        if only and not any(o in po.name for o in only):
            continue
        for sh in _shape_list(po, tier):
            tasks.append((i, sh))
    jobs = jobs or 16
    split_s = float(os.environ.get("PYVC_SPLIT_S", 12))
    parts = []
    if jobs == 1:
        for i, sh in tasks:
            parts.append(run_po_task(prop, i, sh, tier, seed))
    else:
        from concurrent.futures import wait, FIRST_COMPLETED
        with ProcessPoolExecutor(max_workers=jobs) as pool:
            live = {pool.submit(run_po_task, prop, i, sh, tier, seed, None, split_s): (i, sh) for i, sh in tasks}
            spawned = {}
            while live:
                done, _ = wait(list(live), return_when=FIRST_COMPLETED)
                for f in done:
                    i, sh = live.pop(f)
                    r = f.result()
                    parts.append(r)
                    pend = r.get("pending") or []
                    if pend:
                        k = r["key"]
                        spawned[k] = spawned.get(k, 0) + len(pend)
                        # one sub-task per pending sub-tree while there are idle workers, larger chunks otherwise
                        chunk = 1 if len(live) + len(pend) <= 2 * jobs else max(1, len(pend) // jobs)
                        for a in range(0, len(pend), chunk):
                            live[pool.submit(run_po_task, prop, i, sh, tier, seed, pend[a:a + chunk], split_s * 2)] = (i, sh)
    results = merge_parts(parts)
    return summarise(prop, tier, seed, results, time.time() - t0, only)


def merge_parts(parts):
    """merge the records of the sub-tasks of one PO x shape (disjoint sub-trees of its path tree)"""
    out, order = {}, []
    for r in parts:
        k = r.get("key") or (r.get("po"), json.dumps(r.get("shape"), sort_keys=True, default=str))
        k = (k[0], k[1]) if isinstance(k, (list, tuple)) else k
        if k not in out:
            out[k] = r
            order.append(k)
            r["subtasks"] = 1
            continue
        a = out[k]
        a["subtasks"] += 1
        if r.get("error"):
            a["error"] = (a.get("error") or "") + r["error"]
            continue
        if a.get("error"):
            continue
        for name, c in r["clauses"].items():
            d = a["clauses"].setdefault(name, {"kind": c["kind"], "instances": 0, "unsat": 0, "sat": 0, "unknown": 0, "seconds": 0.0, "trivial": 0})
            for f in ("instances", "unsat", "sat", "unknown", "seconds", "trivial"):
                d[f] += c[f]
            if "reason_unknown" in c:
                d["reason_unknown"] = c["reason_unknown"]
        for f in r["failures"]:
            if not any(g["clause"] == f["clause"] for g in a["failures"]):
                a["failures"].append(f)
        a["unsupported"] = (a["unsupported"] + r["unsupported"])[:10]
        for f in r["functions"]:
            if f not in a["functions"]:
                a["functions"].append(f)
        for x, v in r["assumptions"].items():
            a["assumptions"][x] = a["assumptions"].get(x, 0) + v
        for lab, ok in r.get("covers", {}).items():
            a["covers"][lab] = a["covers"].get(lab, False) or ok
        for f in ("paths", "infeasible", "solver_s", "feas_calls", "vc_calls", "unknown_feas"):
            a[f] = a.get(f, 0) + r.get(f, 0)
        if r.get("cross"):
            a.setdefault("cross", {})
            for k, v in r["cross"].items():
                a["cross"][k] = a["cross"].get(k, 0) + v
        a["wall_s"] = max(a["wall_s"], r["wall_s"])
    return [out[k] for k in order]


def summarise(prop, tier, seed, results, wall, only=None):
    known = load_known()
    kf = {}
    for k in known.get("findings", []):
        for cl in ([k["clause"]] if "clause" in k else list(k.get("clauses", []))):
            kf[(k["property"], k["po"], cl)] = dict(k, clause=cl)
    violations, known_hits, undecided, crashes = [], [], [], []
    n_obl = n_dis = n_shape = n_bounded = 0
    samples = []
    funcs = {}
    assumptions = {}
    solver_s = 0.0
    per_po = []
    cross = {"checked": 0, "agree": 0, "disagree": 0, "unknown": 0, "error": 0, "seconds": 0.0}
    native_ran = 0
    native_fail = []
    for r in results:
        if r.get("error"):
            crashes.append(f"{r.get('po')}: {r['error'][-600:]}")
            continue
        solver_s += r.get("solver_s", 0)
        for k, v in (r.get("cross") or {}).items():
            cross[k] = cross.get(k, 0) + v
        for f in r["functions"]:
            funcs[(f["file"], f["qualname"])] = f
        for k, v in r["assumptions"].items():
            assumptions[k] = assumptions.get(k, 0) + v
        if r["unsupported"]:
            undecided.append(f"{r['po']} shape={r['shape']}: {r['unsupported'][0]}")
        if not r["clauses"]:
            undecided.append(f"{r['po']} shape={r['shape']}: zero obligations generated (vacuous)")
        for lab, ok in r.get("covers", {}).items():
            if not ok:
                undecided.append(f"{r['po']} shape={r['shape']}: cover '{lab}' not reached (vacuity)")
        failed_clauses = {f["clause"] for f in r["failures"]}
        for name, c in r["clauses"].items():
            n_obl += 1
            if c["sat"] == 0 and c["unknown"] == 0:
                n_dis += 1
                if r["strength"] == "S":
                    n_shape += 1
                if r["strength"] in ("B", "X"):
                    n_bounded += 1
            elif c["unknown"] and name not in failed_clauses:
                undecided.append(f"{r['po']}/{name}: solver unknown ({c.get('reason_unknown', '')})")
            if len(samples) < 12:
                samples.append({"obligation": f"{r['po']}/{name}", "kind": c["kind"], "path_instances": c["instances"],
                                "verdict": "discharged" if c["sat"] == 0 and c["unknown"] == 0 else ("failed" if c["sat"] else "unknown"),
                                "solver_s": round(c["seconds"], 3), "shape": r["shape"], "strength": r["strength"]})
        for f in r["failures"]:
            key = (prop, r["po"], f["clause"])
            keyw = (prop, r["po"], "*")
            if key in kf or keyw in kf:
                k = kf.get(key) or kf.get(keyw)
                known_hits.append((k, r, f))
                continue
            d = os.path.join(OUT, "replays", prop)
            os.makedirs(d, exist_ok=True)
            path = os.path.join(d, _san(f"{r['po']}__{f['clause']}__{json.dumps(r['shape'], sort_keys=True, default=str) if r['shape'] else 'noshape'}") + ".json")
            json.dump({"property": prop, "po": r["po"], "shape": r["shape"], "failed_obligation": f"{r['po']}/{f['clause']}",
                       "kind": f["kind"], "inputs": f["replay_inputs"], "model": f["model"], "reproduced_natively": f["reproduced"],
                       "replay_info": f["replay_info"], "verifier_output": f["verifier_output"], "seed": seed, "tier": tier},
                      open(path, "w"), indent=1, default=str)
            violations.append((path, f["reproduced"], r["po"], f["clause"]))
        nat = r.get("native") or {}
        native_ran += nat.get("ran", 0)
        for nf in nat.get("clause_failures", []):
            native_fail.append({"po": r["po"], **nf})
            # a clause that is false on the real code for an input inside the precondition is a violation in its own right
            # (e.g. a discrete outcome flipped by Decimal rounding, invisible to the proof over the reals)
            if (prop, r["po"], nf["clause"]) in kf or any(v[2] == r["po"] and v[3] == nf["clause"] for v in violations):
                continue
            d = os.path.join(OUT, "replays", prop)
            os.makedirs(d, exist_ok=True)
            path = os.path.join(d, _san(f"{r['po']}__{nf['clause']}__native-sample") + ".json")
            json.dump({"property": prop, "po": r["po"], "shape": r["shape"], "failed_obligation": f"{r['po']}/{nf['clause']}",
                       "kind": "native-sample", "inputs": nf["inputs"], "model": {}, "reproduced_natively": True,
                       "replay_info": {"detail": nf.get("detail", "")},
                       "verifier_output": "contract clause evaluated natively on the real code is False for this input (seeded sample inside the precondition)",
                       "seed": seed, "tier": tier}, open(path, "w"), indent=1, default=str)
            violations.append((path, True, r["po"], nf["clause"]))
        per_po.append({"po": r["po"], "shape": r["shape"], "strength": r["strength"], "paths": r["paths"],
                       "infeasible_paths": r["infeasible"], "obligations": len(r["clauses"]),
                       "discharged": sum(1 for c in r["clauses"].values() if c["sat"] == 0 and c["unknown"] == 0),
                       "solver_s": round(r.get("solver_s", 0), 3), "wall_s": round(r["wall_s"], 2),
                       "native_samples": nat.get("ran", 0), "note": r.get("note", "")})
    # report
    seen_known = set()
    for k, r, f in known_hits:
        key = (k["property"], k["po"], k["what"])
        if key in seen_known:
            continue
        seen_known.add(key)
        print(f"KNOWN-FINDING: property={prop} {k['what']} [obligation {r['po']}/{f['clause']}]")
    for path, repro, po, clause in violations:
        print(f"VIOLATION property={prop} replay={path}" + ("" if repro else " no-failing-input-found"))
    for nf in native_fail[:2]:
        print(f"NATIVE-SAMPLE-FAIL {prop}: {str(nf)[:400]}", file=sys.stderr)
    for u in undecided:
        print(f"UNDECIDED {prop}: {u}", file=sys.stderr)
    for c in crashes:
        print(f"CRASH {prop}: {c}", file=sys.stderr)
    code = 1 if violations else (3 if crashes else (2 if undecided else 0))
    if n_obl == 0 and code == 0:
        print(f"UNDECIDED {prop}: no obligations", file=sys.stderr)
        code = 2
    reg = _claims().get(prop, {})
    level = reg.get("category", "other")
    ev = {
        "property_id": prop, "tier": tier, "seed": seed, "level": level, "wall_s": round(wall, 2),
        "violations": len(violations),
        "coverage": {
            "obligations": n_obl, "discharged": n_dis,
            "discharged_shape_bounded": n_shape, "discharged_bounded_standin": n_bounded,
            "checker_cmd": f"./vf check {prop} --tier {tier}",
            "back_end": "z3 %s (python API), rlimit-bounded" % _z3v() + ("; linear obligations re-decided by /usr/bin/cvc5 1.0.3" if cross["checked"] else ""),
            "second_solver_crosscheck": {k: (round(v, 1) if isinstance(v, float) else v) for k, v in cross.items()},
            "solver_s": round(solver_s, 2),
            "explanation": reg.get("explanation", ""),
            "evaluations": n_obl + native_ran,
            "distinct_nontrivial": n_obl,
            "rule": "one evaluation per named obligation (clause x PO x shape; path instances are merged) plus native contract samples; an obligation is non-trivial when it required a solver call or a structural comparison",
            "samples": samples,
            "functions_under_contract": sorted(funcs.values(), key=lambda f: (f["file"], f["lines"][0])),
            "proof_obligation_groups": per_po,
            "trusted_base": sorted(set(reg.get("trusted", []) + [f"{k} (x{v})" for k, v in assumptions.items()])),
            "known_findings_hit": [f"{k['po']}/{k['clause']}" for k, _, _ in known_hits],
            "undecided": undecided, "crashes": crashes,
            "native_contract_samples": native_ran, "native_clause_failures": native_fail[:10],
        },
        "assumptions": reg.get("assumptions", []),
    }
    if only is None:
        os.makedirs(os.path.join(OUT, "evidence"), exist_ok=True)
        json.dump(ev, open(os.path.join(OUT, "evidence", f"{prop}.json"), "w"), indent=1, default=str)
    print(f"{prop} [{tier}] obligations={n_obl} discharged={n_dis} (shape-bounded {n_shape}, bounded {n_bounded}) "
          f"violations={len(violations)} known={len(seen_known)} undecided={len(undecided)} crashes={len(crashes)} "
          f"native_samples={native_ran} native_fail={len(native_fail)} solver={solver_s:.1f}s wall={wall:.1f}s -> exit {code}")
    return code


def _z3v():
    import z3
    return z3.get_version_string()


def _claims():
    sys.path.insert(0, ROOT)
    import vfreg
    return vfreg.CLAIMS
