"""Tiny in-memory backtest (no loaders, no files): one Uniswap market, 5 one-minute bars, scripted strategies."""
from decimal import Decimal
import pandas as pd
from demeter import TokenInfo, MarketInfo, Strategy, Snapshot
from demeter.uniswap import UniLpMarket, UniV3Pool
from demeter.core._typing import StrategyConfig, BacktestData, BacktestConfig

USDC, ETH = TokenInfo("usdc", 6), TokenInfo("eth", 18)
KEY = MarketInfo("uni")
TICK = 200000


def mock_frame(market, n=5, tick=TICK):
    index = pd.date_range("2022-10-8 8:0:0", periods=n, freq="min")
    df = pd.DataFrame(index=index)
    for c in ("netAmount0", "netAmount1", "inAmount0", "inAmount1"):
        df[c] = [0] * n
    for c in ("closeTick", "openTick", "lowestTick", "highestTick"):
        df[c] = [float(tick)] * n
    df["currentLiquidity"] = [Decimal(10 ** 18)] * n
    market.add_statistic_column(df)
    return df


class AddAtFirstBar(Strategy):
    def __init__(self, value):
        super().__init__()
        self.value = value
        self.done = False

    def on_bar(self, snapshot: Snapshot):
        if not self.done:
            m = self.broker.markets[KEY]
            m.add_liquidity_by_tick(TICK - 600, TICK + 600, Decimal(self.value) / m.market_status.data.price / 4, Decimal(self.value) / 4)
            self.done = True


class Idle(Strategy):
    pass


def make(n=5):
    pool = UniV3Pool(USDC, ETH, 0.05, USDC)
    market = UniLpMarket(KEY, pool)
    df = mock_frame(market, n)
    price = df[["price"]].rename(columns={"price": "ETH"})
    price["USDC"] = Decimal(1)
    config = StrategyConfig(assets={USDC: Decimal(1000), ETH: Decimal(1)}, markets=[market])
    data = BacktestData({KEY: df}, (price, USDC))
    return config, data, BacktestConfig()


def make_kind(kind, n=5):
    """fixtures for the frame obligation: 'uni', 'uni+uni' (two pools), 'uni+squeeth' (a market that references another one)"""
    config, data, bk = make(n)
    if kind == "uni":
        return config, data, bk
    m0 = config.markets[0]
    df0 = data.data[KEY]
    if kind == "uni+uni":
        k2 = MarketInfo("uni2")
        m2 = UniLpMarket(k2, UniV3Pool(USDC, ETH, 0.3, USDC))
        df2 = mock_frame(m2, n)
        return StrategyConfig(assets=config.assets, markets=[m0, m2]), BacktestData({KEY: df0, k2: df2}, data.prices), bk
    if kind == "uni+squeeth":
        from demeter.squeeth.market import SqueethMarket
        from demeter import MarketTypeEnum
        ks = MarketInfo("sqth", MarketTypeEnum.squeeth)
        sq = SqueethMarket(ks, m0)
        dfs = pd.DataFrame({"norm_factor": [Decimal("0.5")] * n, "WETH": [Decimal(2000)] * n, "OSQTH": [Decimal("0.1")] * n}, index=df0.index)
        from demeter.squeeth._typing import oSQTH, WETH
        price = data.prices[0].copy()
        price["OSQTH"] = Decimal(200)
        price["WETH"] = Decimal(2000)
        assets = dict(config.assets)
        assets[oSQTH] = Decimal(0)
        assets[WETH] = Decimal(1)
        return StrategyConfig(assets=assets, markets=[m0, sq]), BacktestData({KEY: df0, ks: dfs}, (price, USDC)), bk
    raise ValueError(kind)


def run_manager(strategies):
    """run the strategies through BacktestManager (in-process path); returns per strategy (net value, balances, position count)"""
    from demeter.core.backtest import BacktestManager
    from demeter.core.actuator import Actuator
    results = []
    orig = Actuator.run

    def run(self, *a, **k):
        r = orig(self, *a, **k)
        st = self.final_status
        results.append((str(st.net_value), tuple(sorted((t.name, str(b)) for t, b in st.asset_balances.items())), len(self.broker.markets[KEY].positions)))
        return r
    Actuator.run = run
    try:
        config, data, bk = make()
        import logging
        logging.disable(logging.CRITICAL)
        BacktestManager(config, data, list(strategies), bk, threads=1).run()
    finally:
        Actuator.run = orig
        logging.disable(logging.NOTSET)
    return results


def raw_frame(n, close_ticks, open0, volume=0):
    index = pd.date_range("2022-10-8 8:0:0", periods=n, freq="min")
    df = pd.DataFrame(index=index)
    for c in ("netAmount0", "netAmount1"):
        df[c] = [0] * n
    df["inAmount0"] = [volume] * n
    df["inAmount1"] = [volume * 10 ** 9] * n
    df["closeTick"] = [float(t) for t in close_ticks]
    df["openTick"] = [float(open0)] + [float(t) for t in close_ticks[:-1]]
    df["lowestTick"] = df["closeTick"]
    df["highestTick"] = df["closeTick"]
    df["currentLiquidity"] = [Decimal(10 ** 18)] * n
    return df


class Recorder(Strategy):
    """scripted strategy: adds liquidity at bar 0, removes half at bar 2, records every snapshot it is handed"""
    def __init__(self):
        super().__init__()
        self.seen = []

    def on_bar(self, snapshot: Snapshot):
        m = self.broker.markets[KEY]
        self.seen.append((str(snapshot.timestamp), str(snapshot.prices.to_dict()), str(snapshot.market_status[KEY].to_dict())))
        if snapshot.row_id == 0:
            m.add_liquidity_by_tick(TICK - 6000, TICK + 6000)
        if snapshot.row_id == 2 and len(m.positions) > 0:
            k = list(m.positions.keys())[0]
            m.remove_liquidity(k, m.positions[k].liquidity // 2)


def run_history(close_ticks, volume=0):
    """run the Recorder strategy over a history given by its close ticks; returns (per-bar records, frame hash before, after)"""
    import logging
    from demeter.core.actuator import Actuator
    n = len(close_ticks)
    pool = UniV3Pool(USDC, ETH, 0.05, USDC)
    market = UniLpMarket(KEY, pool)
    df = raw_frame(n, close_ticks, close_ticks[0], volume)
    market.add_statistic_column(df)
    market.data = df
    price = df[["price"]].rename(columns={"price": "ETH"})
    price["USDC"] = Decimal(1)
    h0 = (_h(df), _h(price))
    logging.disable(logging.CRITICAL)
    try:
        a = Actuator()
        a.broker.add_market(market)
        a.broker.set_balance(USDC, 2000)
        a.broker.set_balance(ETH, 1)
        st = Recorder()
        a.strategy = st
        a.set_price(price, USDC)
        a.run(False)
    finally:
        logging.disable(logging.NOTSET)
    per_bar = []
    for i, acc in enumerate(a.account_status):
        acts = [str(x) for x in a.actions if x.timestamp == acc.timestamp]
        per_bar.append((str(acc.timestamp), str(acc.net_value), str(sorted((t.name, str(b)) for t, b in acc.asset_balances.items())), tuple(acts), st.seen[i]))
    return per_bar, h0, (_h(df), _h(price))


def _h(df):
    return int(pd.util.hash_pandas_object(df.astype(str), index=True).sum())


# ------------------------------------------------------------------------------------------------ option market fixture (C19)
OPT_KEY = None
OPT_A, OPT_B = "ETH-22SEP23-1650-C", "ETH-22SEP23-1700-C"


def option_frame():
    """four hourly snapshots of two instruments; every row holds its OWN python lists, as the csv loader produces them"""
    import json
    rows = []
    for i, hour in enumerate(pd.date_range("2023-09-01 06:00:00", periods=4, freq="1h")):
        for name, strike, mark, asks, bids in ((OPT_A, 1650, 0.0287, [[0.0285, 50], [0.029, 605], [0.0295, 197]], [[0.028, 51], [0.0275, 585]]),
                                               (OPT_B, 1700, 0.0161, [[0.0165, 450], [0.017, 780]], [[0.0155, 446], [0.015, 879]])):
            rows.append({"time": hour, "instrument_name": name, "state": "open", "type": "CALL", "strike_price": strike, "t": pd.Timedelta(days=21),
                         "expiry_time": pd.Timestamp("2023-09-22 08:00:00"), "vega": 1.5, "theta": -1.1, "rho": 0.4, "gamma": 0.003, "delta": 0.5,
                         "underlying_price": 1650.0 + i, "settlement_price": None, "mark_price": mark, "mark_iv": 29.0, "last_price": mark,
                         "interest_rate": 0, "bid_iv": 28.0, "best_bid_price": bids[0][0], "best_bid_amount": bids[0][1], "ask_iv": 29.0,
                         "best_ask_price": asks[0][0], "best_ask_amount": asks[0][1], "asks": json.loads(json.dumps(asks)), "bids": json.loads(json.dumps(bids))})
    return pd.DataFrame(rows).set_index(["time", "instrument_name"]).sort_index()


class BuyOption(Strategy):
    """deposits, then buys `amount` contracts of `instrument` in the first bar (optionally with a price cap relative to mark, and after
    asking for a quote)"""
    def __init__(self, instrument, amount, cap=None, quote_first=False):
        super().__init__()
        self.instrument, self.amount, self.cap, self.quote_first = instrument, amount, cap, quote_first
        self.fills = ()

    def on_bar(self, snapshot: Snapshot):
        if snapshot.row_id == 0:
            m = list(self.broker.markets.values())[0]
            m.deposit(50)
            if self.amount > 0:
                if self.quote_first:
                    m.estimate_cost(self.instrument, self.amount, "buy")
                orders, _ = m.buy(self.instrument, self.amount, None, None, self.cap)
                self.fills = tuple((str(o.price), str(o.amount)) for o in orders)


def run_manager_options(strategies):
    """run option strategies through BacktestManager (in-process path) over ONE shared order-book frame; returns per strategy
    (fills, option cash, positions, final net value) and the frame's order-book cells before / after"""
    from demeter import MarketTypeEnum
    from demeter.deribit import DeribitOptionMarket
    from demeter.deribit.helper import get_price_from_data
    from demeter.core.backtest import BacktestManager
    from demeter.core.actuator import Actuator
    import logging
    key = MarketInfo("option", MarketTypeEnum.deribit_option)
    eth = DeribitOptionMarket.ETH
    data = option_frame()
    book0 = str([(i, data.at[i, "asks"], data.at[i, "bids"]) for i in data.index])
    results = []
    orig = Actuator.run

    def run(self, *a, **k):
        r = orig(self, *a, **k)
        m = list(self.broker.markets.values())[0]
        results.append((self.strategy.fills, str(m.balance), tuple(sorted((n, str(p.amount), str(p.avg_buy_price)) for n, p in m.positions.items())),
                        str(self.final_status.net_value)))
        return r
    Actuator.run = run
    logging.disable(logging.CRITICAL)
    try:
        BacktestManager(StrategyConfig(assets={eth: 100}, markets=[DeribitOptionMarket(key, eth)]), BacktestData({key: data}, (get_price_from_data(data), eth)),
                        list(strategies), BacktestConfig(), threads=1).run()
    finally:
        Actuator.run = orig
        logging.disable(logging.NOTSET)
    book1 = str([(i, data.at[i, "asks"], data.at[i, "bids"]) for i in data.index])
    return results, book0, book1


# ------------------------------------------------------------------------------------------------ triggers through the real bar loop (C18)
def run_triggers(n, specs):
    """run a strategy with the given time triggers through the real Actuator over n one-minute bars starting 08:00; returns, per trigger,
    the minutes (offset from the first bar) at which its action was called.  specs: ("at", minute) | ("range", a, b) | ("period", p, immediate, pending)
    | ("times", [minutes])"""
    import logging
    from datetime import timedelta
    from demeter.core.actuator import Actuator
    from demeter.strategy.trigger import AtTimeTrigger, AtTimesTrigger, TimeRangeTrigger, TimeRange, PeriodTrigger
    config, data, bk = make(n)
    t0 = data.data[KEY].index[0].to_pydatetime()
    fired = [[] for _ in specs]

    class S(Strategy):
        def initialize(self):
            for i, sp in enumerate(specs):
                do = (lambda i: (lambda snapshot: fired[i].append(int((snapshot.timestamp - t0).total_seconds() // 60))))(i)
                if sp[0] == "at":
                    self.triggers.append(AtTimeTrigger(t0 + timedelta(minutes=sp[1]), do))
                elif sp[0] == "times":
                    self.triggers.append(AtTimesTrigger([t0 + timedelta(minutes=m) for m in sp[1]], do))
                elif sp[0] == "range":
                    self.triggers.append(TimeRangeTrigger(TimeRange(t0 + timedelta(minutes=sp[1]), t0 + timedelta(minutes=sp[2])), do))
                else:
                    self.triggers.append(PeriodTrigger(timedelta(minutes=sp[1]), do, trigger_immediately=sp[2], pending=timedelta(minutes=sp[3])))

    logging.disable(logging.CRITICAL)
    try:
        a = Actuator()
        m = config.markets[0]
        a.broker.add_market(m)
        m.data = data.data[KEY]
        a.broker.set_balance(USDC, 1000)
        a.strategy = S()
        a.set_price(data.prices[0], data.prices[1])
        a.run(False)
    finally:
        logging.disable(logging.NOTSET)
    return fired
