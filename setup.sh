#!/bin/sh
# Build the overlay interpreter: /venv's python 3.12 + repo deps (via .pth) + z3/cvc5 wheels. Offline.
set -e
cd "$(dirname "$0")"
if [ -x .venv/bin/python ] && .venv/bin/python -c "import z3, pandas, mpmath" 2>/dev/null; then exit 0; fi
rm -rf .venv
/venv/bin/python -m venv .venv
.venv/bin/python -m pip install -q --no-index --find-links /opt/veriftools/wheels z3-solver cvc5 mpmath jsonschema >/dev/null
echo "import site; site.addsitedir('/venv/lib/python3.12/site-packages')" > .venv/lib/python3.12/site-packages/zz_venv.pth
.venv/bin/python -c "import z3, pandas, mpmath; print('overlay venv ok', z3.get_version_string())"
