"""Registry of claimed properties (drives MANIFEST.json). One entry per property that has a check."""
NOTES = ("Contract-based deductive verification of the real demeter source: see DESIGN.md. "
         "Exit codes of ./vf check: 0 held / 1 violation (VIOLATION line) / 2 undecided / 3 checker crash.")
CLAIMS = {}
NOT_APPLICABLE = {}
