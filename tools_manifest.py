#!/usr/bin/env python3
"""Regenerate MANIFEST.json from the registry in vfreg.py (single source of truth for claims)."""
import json, sys, os
sys.path.insert(0, os.path.dirname(os.path.abspath(__file__)))
import vfreg

def main():
    props = [json.loads(l) for l in open(os.path.join(os.path.dirname(__file__), "properties.jsonl"))]
    ids = [p["id"] for p in props]
    checks, na = [], []
    for pid in ids:
        c = vfreg.CLAIMS.get(pid)
        if c is None:
            na.append({"property_id": pid, "reason": vfreg.NOT_APPLICABLE.get(pid, "no check built yet for this property (work in progress)")})
            continue
        checks.append({
            "property_id": pid,
            "quick_cmd": f"./vf check {pid} --tier quick",
            "thorough_cmd": f"./vf check {pid} --tier thorough",
            "evidence_file": f"evidence/{pid}.json",
            "replay_cmd_template": "./vf replay {path}",
            "engine": "pyvc",
            "level_claimed": {"category": c["category"], "text": c["text"], "design_ref": c.get("design_ref", "DESIGN.md §4/" + pid)},
            "level_note": c["note"],
            "technique": c["technique"],
        })
    m = {
        "version": 1,
        "setup_cmd": "./setup.sh",
        "hooks": {
            "guard": "DEMETER_VERIF",
            "enable": "none needed: contracts are sidecar files under /verif/contracts; /repo is read (ast + import) from its working tree on every run",
            "baseline_off_cmd": "cd /repo && /venv/bin/python -m pytest -ra -q -p no:cacheprovider --timeout=900 --continue-on-collection-errors",
            "source_commits": [],
            "add_only": True,
        },
        "engines": [{
            "name": "pyvc",
            "path": "pyvc/",
            "serves_properties": [c["property_id"] for c in checks],
            "kind_free_text": "symbolic interpreter of the real Python AST (re-read from /repo each run) generating verification conditions from sidecar contracts, discharged by z3 5.1 (cvc5 cross-check on linear VCs); native replay of counter-models on the real code",
        }],
        "checks": checks,
        "not_applicable": na,
        "notes": vfreg.NOTES,
    }
    json.dump(m, open(os.path.join(os.path.dirname(__file__), "MANIFEST.json"), "w"), indent=1)
    print("MANIFEST.json:", len(checks), "checks,", len(na), "not_applicable")

if __name__ == "__main__":
    main()
