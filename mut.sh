#!/bin/sh
# usage: ./mut.sh <patch-file-or-sed-script> <Cxx> [tier]   -- run a check against a scratch copy of /repo with a change applied
# The scratch copy lives under /tmp and is removed afterwards; /repo is never touched.
set -e
PATCH="$(realpath "$1")"; PROP="$2"; TIER="${3:-quick}"
W=$(mktemp -d /tmp/vfmut.XXXXXX)
trap 'rm -rf "$W"' EXIT
mkdir -p "$W/repo" && (cd /repo && git ls-files -z | xargs -0 cp --parents -t "$W/repo" 2>/dev/null) 
(cd "$W/repo" && git init -q . 2>/dev/null && git apply --whitespace=nowarn "$PATCH") || { echo "patch failed"; exit 9; }
shift 3 2>/dev/null || shift 2
set +e
DEMETER_REPO="$W/repo" VF_OUT="$W/out" /verif/vf check "$PROP" --tier "$TIER" "$@"
echo "exit=$?"
